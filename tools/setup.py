#!/usr/bin/env python3
"""setup: check that the pre-installed tools are present and warm the AST cache (offline; nothing is fetched)."""
import shutil, sys, os
sys.path.insert(0, os.path.dirname(os.path.abspath(__file__)))
missing = [t for t in ('cbmc', 'goto-cc', 'goto-instrument', 'clang++', 'g++') if shutil.which(t) is None]
if missing:
    print('missing tools:', missing); sys.exit(1)
import yrun
p = yrun.prepare_ast()
print('AST cache ready:', p)
