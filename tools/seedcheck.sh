#!/bin/sh
# usage: seedcheck.sh <patch.diff> <PROP>...   -- ./check against a scratch worktree carrying the patch; evidence and replay files
# go to /tmp/w/seed-ev (the committed evidence is not touched); /repo is not touched.
P="$1"; shift; S=/tmp/wt/seedrepo
cd /verif; mkdir -p /tmp/w/seed-ev
git -C $S checkout -- . ; git -C $S apply "$P" || { echo "patch does not apply"; exit 3; }
for prop in "$@"; do
  YAKUSHIMA_REPO=$S VERIF_EVIDENCE_DIR=/tmp/w/seed-ev VERIF_REPLAY_DIR=/tmp/w/seed-ev ./check "$prop" --tier quick 2>&1 | tail -${SEED_TAIL:-6}; echo "[$prop rc=$?]"
done
git -C $S checkout -- .
