#!/usr/bin/env python3
"""Runner: AST dump (cached by content hash), unit emission, goto-cc / goto-instrument --dfcc / cbmc, result parsing."""
import os, sys, json, time, hashlib, subprocess, shutil, re, glob, resource
import yast, ystubgen, yunit
from yast import Abort

VERIF = os.path.dirname(os.path.dirname(os.path.abspath(__file__)))
TOOLS = os.path.join(VERIF, 'tools')
REPO = os.environ.get('YAKUSHIMA_REPO', '/repo')
WORK = os.path.join(VERIF, '.work')
MEM_KB = int(os.environ.get('Y_MEM_KB', str(10 * 1024 * 1024)))

def sh(cmd, timeout, log, env=None, mem_kb=None):
    def lim():
        m = (mem_kb or MEM_KB) * 1024
        resource.setrlimit(resource.RLIMIT_AS, (m, m))
    t0 = time.time()
    try:
        p = subprocess.run(cmd, stdout=subprocess.PIPE, stderr=subprocess.STDOUT, timeout=timeout, preexec_fn=lim, env=env)
        out = p.stdout.decode('utf-8', 'replace'); rc = p.returncode
    except subprocess.TimeoutExpired as e:
        out = (e.stdout or b'').decode('utf-8', 'replace') + '\nTIMEOUT'; rc = -9
    with open(log, 'a') as f:
        f.write('$ ' + ' '.join(cmd) + '\n' + out[-200000:] + f'\n[rc={rc} {time.time() - t0:.1f}s]\n')
    return rc, out, time.time() - t0

def include_hash():
    h = hashlib.sha256()
    for p in sorted(glob.glob(os.path.join(REPO, 'include', '*.h'))):
        h.update(p.encode()); h.update(open(p, 'rb').read())
    for p in ('yast.py', 'yunit.py'):
        h.update(open(os.path.join(TOOLS, p), 'rb').read())
    return h.hexdigest()[:16]

def prepare_ast():
    """dump the AST of /repo's current working tree (cached by content hash of include/*.h)"""
    os.makedirs(WORK, exist_ok=True)
    hh = include_hash()
    path = os.path.join(WORK, f'ast-{hh}.json')
    if not os.path.exists(path):
        drv = os.path.join(WORK, f'driver-{hh}-{os.getpid()}.cpp')
        open(drv, 'w').write(yunit.driver_tu(yunit.LAYOUT_RECORDS))
        tmp = path + f'.{os.getpid()}.tmp'
        try:
            yast.dump_ast(REPO, drv, tmp)
            os.replace(tmp, path)
        finally:
            for f in (drv, tmp):
                if os.path.exists(f): os.remove(f)
        # keep the cache small
        olds = sorted(glob.glob(os.path.join(WORK, 'ast-*.json')), key=os.path.getmtime)
        for o in olds[:-3]: os.remove(o)
    return path

_ix_cache = {}
def load_index(ast_path):
    if ast_path not in _ix_cache:
        import y2c
        objs = yast.load(ast_path)
        _ix_cache[ast_path] = y2c.Index(objs)
    return _ix_cache[ast_path]

def emit_unit(ast_path, spec_path, outdir):
    ix = load_index(ast_path)
    spec = yunit.parse_spec(spec_path)
    u = yunit.Unit(ix, spec); txt = u.build()
    u2 = yunit.Unit(ix, spec); u2._scan_text = txt; txt = u2.build()
    cpath = os.path.join(outdir, (spec.name or os.path.basename(spec_path)) + '.c')
    open(cpath, 'w').write(txt)
    json.dump(getattr(u2, 'stub_info', {}), open(cpath + '.stubs.json', 'w'))
    return cpath, spec, u2

PROBE = 'Y_VACUITY_PROBE'

def _run_job_uncached(cpath, job, outdir, tier='quick'):
    """returns dict(job, status in {ok, failed, error, timeout}, obligations:[{name,desc,status,loc}], probes_ok, seconds, cmds)"""
    name = job['name']; log = os.path.join(outdir, name + '.log')
    open(log, 'w').close()
    entry = job['entry']
    defs = ['-D' + d for d in job.get('defs', '').split(',') if d]
    gb1 = os.path.join(outdir, name + '.1.gb'); gb2 = os.path.join(outdir, name + '.2.gb')
    timeout = int(os.environ.get('Y_TIMEOUT') or job.get('timeout', '900'))
    res = {'job': name, 'unit': os.path.basename(cpath), 'entry': entry, 'cmds': [], 'obligations': [], 'seconds': 0.0,
           'backend': job.get('backend', ''), 'props': job.get('props', '').split(',')}
    src = cpath
    if job.get('stub') or os.path.exists(cpath + '.stubs.json'):
        try:
            src, sdefs = ystubgen.make_job_source(cpath, job, outdir); defs = defs + sdefs
        except yast.Abort as a:
            res['status'] = 'error'; res['detail'] = 'stub generation failed: ' + str(a); return res
    cmd = ['goto-cc', '-I', TOOLS, '--function', entry] + defs + [src, '-o', gb1]
    rc, out, dt = sh(cmd, 300, log); res['cmds'].append(' '.join(cmd))
    if rc != 0:
        # a loop contract (proof script) of ANOTHER function of the unit that no longer compiles against the extracted code must not
        # take the whole unit down: drop that function's loop contracts for this job and retry once (the job that enforces that
        # function is then decided by its own fallback, or reported undecided)
        m = re.search(r"In function '(\w+)':", out)
        if m and m.group(1) != job.get('enforce') and re.search(r'loop_invariant|__CPROVER_assigns|__CPROVER_decreases', out):
            cmd = ['goto-cc', '-I', TOOLS, '--function', entry] + defs + ['-DY_NO_LOOP_CONTRACTS_' + m.group(1), src, '-o', gb1]
            rc, out, dt = sh(cmd, 300, log); res['cmds'].append(' '.join(cmd))
            if rc == 0: res['note'] = f"loop contracts of {m.group(1)} do not compile against the extracted code and were dropped for this job"
    if rc != 0:
        res['status'] = 'error'; res['detail'] = 'goto-cc failed: ' + out[-1500:]; return res
    cmd = ['goto-instrument', '--add-library', gb1, gb1]
    rc, out, dt = sh(cmd, 300, log); res['cmds'].append(' '.join(cmd))
    if rc != 0:
        res['status'] = 'error'; res['detail'] = 'goto-instrument --add-library failed: ' + out[-1500:]; return res
    final = gb1
    dfcc = job.get('enforce') or job.get('replace') or job.get('loops')
    if dfcc:
        cmd = ['goto-instrument', '--dfcc', entry]
        if job.get('enforce'): cmd += ['--enforce-contract', job['enforce']]
        ctext = open(cpath).read()
        for r in [x for x in job.get('replace', '').split(',') if x]:
            if re.search(r'\b' + re.escape(r) + r'\(', ctext): cmd += ['--replace-call-with-contract', r]   # callees absent from this unit are skipped
        if job.get('loops', '1') != '0': cmd += ['--apply-loop-contracts']
        cmd += [gb1, gb2]
        rc, out, dt = sh(cmd, 1800, log, mem_kb=(int(job['mem']) * 1024 * 1024 if job.get('mem') else None)); res['cmds'].append(' '.join(cmd)); res['seconds'] += dt
        if rc != 0:
            res['status'] = 'error'; res['detail'] = 'goto-instrument failed: ' + out[-2500:]; return res
        final = gb2
    solver = job.get('solver', 'cadical')
    cmd = ['cbmc', final, '--bounds-check', '--pointer-check', '--undefined-shift-check', '--div-by-zero-check',
           '--object-bits', job.get('objbits', '8'), '--json-ui', '--verbosity', '6', '--no-malloc-may-fail', '--drop-unused-functions']
    if job.get('convcheck', '1') != '0': cmd += ['--conversion-check']
    if job.get('unwind'): cmd += ['--unwind', job['unwind'], '--unwinding-assertions']
    if job.get('unwindset'): cmd += ['--unwindset', job['unwindset'].replace(';', ',')]
    if solver == 'kissat': cmd += ['--external-sat-solver', 'kissat']
    elif solver.startswith('smt:'): cmd += ['--' + solver[4:]]
    elif solver != 'minisat': cmd += ['--sat-solver', solver]
    if job.get('slice', '0') == '1': cmd += ['--slice-formula']
    rc, out, dt = sh(cmd, timeout, log, mem_kb=(int(job['mem']) * 1024 * 1024 if job.get('mem') else None)); res['cmds'].append(' '.join(cmd)); res['seconds'] += dt
    if rc == -9:
        res['status'] = 'timeout'; res['detail'] = f'cbmc exceeded {timeout}s'; return res
    try:
        open(os.path.join(outdir, name + '.cbmc.json'), 'w').write(out)
    except Exception: pass
    try:
        js = json.loads(out)
    except Exception:
        res['status'] = 'error'; res['detail'] = 'cbmc output not JSON: ' + out[-1500:]; return res
    results = None; msgs = []
    for item in js:
        if 'result' in item: results = item['result']
        if item.get('messageType') in ('ERROR', 'WARNING'): msgs.append(item.get('messageText', ''))
        if 'cProverStatus' in item: res['cprover_status'] = item['cProverStatus']
    res['warnings'] = [m for m in msgs if 'ignoring' in m or 'rror' in m][:20]
    if results is None:
        res['status'] = 'error'; res['detail'] = 'no result list: ' + '\n'.join(msgs)[-1500:]; return res
    if any('ignoring' in m for m in msgs):
        res['status'] = 'error'; res['detail'] = 'solver ignored a construct: ' + '; '.join(res['warnings']); return res
    probes = []; failed = []
    for r in results:
        desc = r.get('description', ''); st = r.get('status')
        loc = r.get('sourceLocation', {})
        rec = {'name': r.get('property'), 'desc': desc, 'status': st, 'line': loc.get('line'), 'function': loc.get('function')}
        if PROBE in desc:
            if rec['function'] == entry: probes.append(rec)
            continue
        if st == 'FAILURE':
            rec['trace'] = summarize_trace(r.get('trace', []))
            failed.append(rec)
        res['obligations'].append(rec)
    res['probes'] = probes
    res['probes_ok'] = bool(probes) and all(p['status'] == 'FAILURE' for p in probes)
    res['n'] = len(res['obligations']); res['n_ok'] = sum(1 for o in res['obligations'] if o['status'] == 'SUCCESS')
    res['failed'] = failed
    if any(o['status'] not in ('SUCCESS', 'FAILURE') for o in res['obligations']):
        res['status'] = 'error'; res['detail'] = 'obligation with status other than SUCCESS/FAILURE: ' + '; '.join(f"{o['status']} {o['name']} {o['desc'][:80]}" for o in res['obligations'] if o['status'] not in ('SUCCESS', 'FAILURE'))[:1500] + ' || MSG: ' + ' | '.join(msgs)[-800:] + ' || FAILED: ' + '; '.join(f"{o['name']} {o['desc'][:80]}" for o in failed)[:1500]
    elif failed: res['status'] = 'failed'
    elif not res['obligations']: res['status'] = 'error'; res['detail'] = 'zero obligations generated'
    elif job.get('probe', '1') != '0' and not res['probes_ok']:
        res['status'] = 'error'; res['detail'] = 'vacuity probe did not fail (precondition unsatisfiable or exit unreachable) or is missing'
    else: res['status'] = 'ok'
    return res

CACHE = os.path.join(WORK, 'cache')
_TOOLV = None
def _tool_version():
    global _TOOLV
    if _TOOLV is None:
        try: _TOOLV = subprocess.run(['cbmc', '--version'], capture_output=True, text=True).stdout.strip()
        except Exception: _TOOLV = '?'
    return _TOOLV

def run_job(cpath, job, outdir, tier='quick'):
    """memoised: the verdict of a job is a function of (emitted unit text, stub side table, job definition, stub/stub-generator
    sources, tool version). The unit is re-extracted from /repo on every run; only when that text is byte-identical to an earlier
    run is the solver's answer reused (decided results only - never timeouts or tool errors). OPT-IN with Y_CACHE=1 (development and seeded-change self-tests); the registered checks always run the verifier."""
    if os.environ.get('Y_CACHE') != '1': return _run_job_uncached(cpath, job, outdir, tier)   # opt-in (development / seeded-change self-tests only)
    h = hashlib.sha256()
    h.update(open(cpath, 'rb').read())
    side = cpath + '.stubs.json'
    if os.path.exists(side): h.update(open(side, 'rb').read())
    h.update(json.dumps({k: v for k, v in sorted(job.items()) if k not in ('props', 'tier', 'cost', 'wip')}).encode())
    for f in ('ystub_pre.h', 'ystub_post.h', 'ystubgen.py', 'yrun.py'):
        h.update(open(os.path.join(TOOLS, f), 'rb').read())
    h.update(_tool_version().encode()); h.update(os.environ.get('Y_TIMEOUT', '').encode())
    key = h.hexdigest()[:32]; cp = os.path.join(CACHE, key + '.json')
    if os.path.exists(cp):
        try:
            res = json.load(open(cp)); res['cached'] = True; res['props'] = job.get('props', '').split(',')
            res['note'] = (res.get('note', '') + ' result reused: emitted unit, job and tools byte-identical to the run that produced it').strip()
            return res
        except Exception: pass
    res = _run_job_uncached(cpath, job, outdir, tier)
    if res.get('status') in ('ok', 'failed'):
        try:
            os.makedirs(CACHE, exist_ok=True)
            tmp = cp + '.%d.tmp' % os.getpid(); json.dump(res, open(tmp, 'w')); os.replace(tmp, cp)
        except Exception: pass
    return res

def summarize_trace(trace):
    """inputs and assignments of harness-level variables (compact)"""
    out = []
    for s in trace:
        if s.get('stepType') == 'assignment' and not s.get('hidden'):
            lhs = s.get('lhs', ''); v = s.get('value', {})
            fn = s.get('sourceLocation', {}).get('function', '')
            val = v.get('data', v.get('name'))
            if val is None and 'members' in v: val = json.dumps(v)[:300]
            out.append({'lhs': lhs, 'value': val, 'binary': v.get('binary'), 'function': fn, 'line': s.get('sourceLocation', {}).get('line')})
    return out[-400:]
