#!/bin/sh
# keep_seed.sh <PROP> <n> <id> "<needs>" "<caught-by>"   -- copies a confirmed seeded change into /verif/seeded/<id>/
P=$1; N=$2; ID=$3; NEEDS=$4; CAUGHT=$5
O=/tmp/wt/out-$P; D=/verif/seeded/$ID
mkdir -p $D
cp $O/change$N.diff $D/patch.diff; cp $O/demo$N.cpp $D/demo.cpp; cp $O/confirm$N.txt $D/confirm.txt
python3 - "$P" "$ID" "$NEEDS" "$CAUGHT" "$D" <<'PY'
import json, sys
p, i, needs, caught, d = sys.argv[1:6]
json.dump({"id": i, "breaks_property": p, "needs_to_manifest": needs,
  "what_i_ran": ["tools/confirm_seed.sh (scratch worktree /tmp/wt/%s): demo exits 0 without the change and 1 with it; cmake --build of all test targets with the change (only iscan_concurrent_modify_test fails to compile, as at HEAD); ctest -j8 --timeout 900 with the change: all built tests pass (see confirm.txt)" % p,
                 "tools/seedtest.sh patch.diff %s (git apply on /repo, ./check, git checkout -- .)" % p],
  "demo_build": "g++ -std=c++17 -O2 -DNDEBUG -I<repo>/include -I<repo>/third_party demo.cpp -o demo -lglog -ltbb -lpthread",
  "detected_by": caught, "origin": "independent sub-agent given only the property text and a scratch worktree"}, open(d + '/meta.json', 'w'), indent=1)
PY
echo kept $D
