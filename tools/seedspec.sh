#!/bin/sh
# usage: seedspec.sh <patch.diff> <spec> <job-regex> <outfile>  -- apply the patch, emit the unit (AST + C), revert at once, let cbmc run in the background
P="$1"; SPEC="$2"; RE="$3"; OUT="$4"
cd /verif
git -C /repo apply "$P" || { echo "patch does not apply"; exit 3; }
( python3 tools/yspec.py "$SPEC" "$RE" > "$OUT" 2>&1 & )
for i in $(seq 1 600); do grep -q "^emitted\|EXTRACTION\|Traceback" "$OUT" 2>/dev/null && break; sleep 1; done
git -C /repo checkout -- . ; git -C /repo status --short | grep -v _build
head -2 "$OUT"
