#!/bin/sh
# usage: seedspec.sh <patch.diff> <spec> <job-regex> <outfile>
# applies the patch to a SCRATCH worktree (/tmp/wt/seedrepo, created with `git -C /repo worktree add --detach`), runs the
# selected jobs against it (YAKUSHIMA_REPO), reverts the scratch tree once the unit is emitted. /repo itself is not touched.
P="$1"; SPEC="$2"; RE="$3"; OUT="$4"; S=/tmp/wt/seedrepo
cd /verif
git -C $S checkout -- . ; git -C $S apply "$P" || { echo "patch does not apply"; exit 3; }
( YAKUSHIMA_REPO=$S python3 tools/yspec.py "$SPEC" "$RE" > "$OUT" 2>&1 & )
for i in $(seq 1 600); do grep -q "^emitted\|EXTRACTION\|Traceback" "$OUT" 2>/dev/null && break; sleep 1; done
git -C $S checkout -- .
head -2 "$OUT"
