#!/usr/bin/env python3
"""writes /verif/MANIFEST.json from the table below (one place to keep claims, levels and N/A reasons current)"""
import json, os
VERIF = os.path.dirname(os.path.dirname(os.path.abspath(__file__)))
TECH = "CBMC 6.11 code contracts (requires/ensures/assigns/loop invariants) enforced per function with goto-instrument --dfcc on C emitted mechanically from clang's AST of /repo/include on every run; CaDiCaL back end"
NOTE = ("Trusted: clang parse = g++ parse; the y2c emitter; ystub_pre.h models (SC single-step atomics - memory orders dropped, operator new/delete ledger, "
        "TBB queue as FIFO, loop-free memcmp n<=16); CBMC+CaDiCaL; x86-64 LE, pointer bits 62/63 clear. Machine arithmetic is bit-precise, not mathematical. ")

# property -> (claimed?, level text, level note extra, design ref)
P = {
 'C17': (True, "Every public operation of node_version64_body / node_version64 carries a contract discharged for all 2^64 words, both for the sequential memory model and under arbitrary interference on the word (ghost flag left unconstrained): setters change exactly their field, counters wrap in 29 bits without carry, unlock = exactly one CAS with new == f_unlock(old), lock = one CAS locked 0->1 never attempted on a word observed locked, a stable version is a loaded word that is neither locked nor dirty; lemmas L1/L2 (mutual exclusion, equal stable words => no completed insert/split modulo 2^29) are loop-free obligations over the same specs. This is the whole property except ABA after exactly k*2^29 events.",
         "Undecided: wrap-around ABA after exactly k*2^29 events; termination of spin loops.", '5 (C17)'),
 'C19': (True, "Every operation of permutation (insert_rank, delete_rank, get_empty_slot, split_dest, get_cnk, get_index_of_rank, get_lowest_key_pos, set_cnk, init, set_body/get_body, constructors) carries a contract against a nibble-array specification, discharged for all 64-bit words satisfying perm_valid and all ranks/slots: insert shifts exactly the later ranks and places the slot, delete closes the gap, the reported free slot is < 15 and unused (cardinality invariant, no pigeonhole query), split_dest is the identity, validity is preserved, no shift >= 64, and every mutator performs exactly one store which is its last atomic event (single publication).",
         "Undecided: permutation::rearrange / border_node::permutation_rearrange (dead code, uses std::sort) is not emitted.", '5 (C19)'),
 'C18': (True, "One specification order S_cmp (bytewise slice order, then normalised length). Lemma obligations for all pairs/triples of valid entries: irreflexive, antisymmetric, transitive, total, equal to lexicographic byte-string order with a proper prefix first, zero bytes/length corner cases. Site obligations: key_tuple operators (<,>,<=,>=,==,!=, min, max) equal S_cmp on valid entries; leaf lookup (get_lv_of_without_lock) returns the slot of the entry with S_cmp == 0 and compute_rank_if_insert returns the number of smaller entries, for every well-formed 15-slot leaf (complete unwinding by the fan-out constant).",
         "Not yet under contract in this tree (listed as undecided, not assumed): interior routing/insert, the two split side decisions, delete_of's equality test, the slicing blocks, the cursor's inline tuple tests, permutation::rearrange.", '5 (C18)'),
 'C15': (True, "value::create_value<false>/<true>, delete_value, get_body, get_len, get_gc_info, need_delete, remove_delete_flag, is_value_ptr and link_or_value::{get_value, get_next_layer, set_value, set_next_layer, init_lv} carry contracts discharged for all lengths with v_len + max(a,8) < 2^32 and all power-of-two alignments 1..4096: allocation triple, header, get_len(create) == v_len, get_body(create) aligned to the requested alignment and inside the block, bytes equal (ghost index), tag bits, inline values by value, set_value = exactly one store with created_value_ptr designating the stored copy and the old block handed out (not freed) or freed once, readers derive the pointer from one loaded word under arbitrary interference.",
         "Undecided: the reader side inside get/scan (single-load hand-out, see C01/C04) and put's overwrite path are not yet under contract; lifetime of the old block while a reader uses it is C07.", '5 (C15)'),
 'C14': (True, "thread_info::gain_the_right (one CAS false->true or no store and the slot observed occupied; both memory modes), set/get_begin_epoch, set/get_running, thread_info_table::assign_thread_info and enter over a session table of SYMBOLIC configured capacity 1..300 (loop contract + ghost slot indices: OK => the token's slot was claimed by this call's CAS and its begin epoch stored before returning, sequentially the first free slot and no other slot changed; WARN_MAX_SESSIONS => nothing stored, sequentially every slot occupied), leave_thread_info / leave (begin_epoch := 0 stored before running := false, that slot only), thread_info_table::init (every slot free).",
         "Undecided: the schedule-quantified statements (two concurrent enters never share a token follows from the single-location CAS contract only on paper); whether the published begin epoch is still current (window between get_epoch and set_begin_epoch, see C07).", '5 (C14)'),
 'C16': (True, "init(): from ANY prior state (in particular the one fin() leaves) every slot ends free with begin epoch 0 and both background threads are started exactly once with their stop flag clear (ghost snapshot at thread start); gc_thread leaves its loop only after observing the stop flag and runs exactly one pass when started with the flag set - which is why the start condition matters; set_*_end / join_* / invoke_* contracts. This obligation failed on the pinned tree (genuine defect, repaired by fix commit e61c384, recorded in known_findings.txt).",
         "Undecided: fin()/destroy() leaving an empty usable system (needs the destroy recursion and scan units), wall-clock behaviour of the background threads beyond their start conditions.", '5 (C16)'),
 'C03': (True, "check_empty_scan_range returns ERR_BAD_USAGE exactly on the documented set of empty/inverted ranges: proved for ALL key lengths with string_view::compare abstracted to an uninterpreted sign, and (labelled bounded, not counted) against the exact bytewise comparison for keys up to 264 bytes.",
         "Undecided in this tree: the remaining argument checks of scan(), the descent-key obligation (INF ignores the key), the per-entry endpoint tests of scan_border and the exactness of the multi-node result.", '5 (C03)'),
 'C01': (True, "ONE clause of C01 only - 'an OK get never yields a null or torn value': get<char>(tree_instance*, ...) as a reader skeleton under arbitrary interference on every slot-word, version and root-pointer load (loop contract over the goto-retry dispatcher, descent and leaf lookup by assumed skeleton contracts): whenever it returns OK, out.first/out.second are body/length of one loaded slot word that is a non-empty out-of-line value word. The obligation failed on the pinned tree (get racing remove returned OK with nullptr; repaired by fix commit 8da532e, native stress witness attached as replay).",
         "NOT decided (no contract can express it): linearizability of put/get/remove over concurrent histories. Assumed: skeleton contracts of find_border and get_lv_of; rely on slot-word shapes (writer-side obligations proved under C15).", '5 (C01/C04)'),
 'C07': (True, "Reclamation GUARDS (per function, every queue content and length - unbounded queue model): gc_value / gc_node release only the element just popped or the parked one, with its recorded (ptr,size,align), and only if its tag < the gc epoch loaded at entry; nothing is dropped or released twice; the cache is overwritten only when empty; the first ineligible element is parked and stops the pass. Retire side: border_node::delete_at pushes the block ONCE with the retiring session's begin epoch and the allocation triple, clears the delete flag and resets the slot BEFORE the permutation shrinks (call-site precondition of delete_rank), never frees. gc_thread runs a pass per period until it observes its stop flag; get/set_gc_epoch, get_begin_epoch, get_epoch.",
         "NOT decided: the schedule-quantified theorem itself (that these guards imply 'never released while a session active at unlink time is active'), epoch_thread's advance condition and gc_epoch computation (not yet under contract), the stale-begin-epoch window in enter, node retire sites in delete_of / interior delete_of.", '5 (C07/C11)'),
 'C11': (True, "Release ledger per function: value::create_value / delete_value size+align match (all lengths, alignments), set_value frees the previous out-of-line value exactly once or hands it to the caller un-freed, delete_at retires (never frees), gc_value / gc_node free-or-park each popped element exactly once, garbage_collection::fin leaves both caches and both queues empty releasing every element once with its recorded size/alignment (unbounded queue model), create_storage releases its speculative root iff put failed, delete_storage destroys and releases the dropped tree exactly once iff the removal succeeded.",
         "NOT decided: whole-history balance (composition over operations and init/fin cycles), put's speculative allocations, destroy()'s recursion, thread_info_table::fin/gc loops.", '5 (C07/C11)'),
 'C13': (True, "Status mapping and ownership of the storage layer with the map-level operations on the storages tree as recorder stubs: find_storage (OK/WARN_NOT_EXIST, out-parameter only on success), every by-name wrapper (get / put / legacy put / remove / scan) returns WARN_STORAGE_NOT_EXIST iff the name is unknown - without calling the data operation - and otherwise forwards to the found tree with unchanged arguments and returns its status unchanged (legacy put reports put's modified node), create_storage (fresh empty root border, put<tree_instance> unique by value with sizeof/alignof(tree_instance), returns put's status, frees the root iff put failed, always leaves its session), delete_storage (WARN_NOT_EXIST / OK with the tree destroyed and released once and its root nulled / WARN_CONCURRENT_OPERATIONS with the tree untouched).",
         "Assumed: recorder contracts/stubs of put/get/remove/scan/enter/leave/destroy (their behaviour is C01-C03, C11, C14). NOT decided: isolation as a reachability frame, list_storages, concurrent create/create and delete/delete.", '5 (C13)'),
 'C20': (True, "Per-node accounting of border_node::mem_usage, interior_node::mem_usage and link_or_value::mem_usage (recursion through the virtual call closed by its own contract): the entry of the node's level exists afterwards, node count + 1, (reserved - used) grows by exactly the bytes of the unused slots ((15 - cnk) * sizeof(link_or_value), (16 - children) * sizeof(pointer)) - hence used <= reserved and used grows with occupancy -, interior nodes add exactly sizeof(interior_node) (from clang's layout) to reserved, an out-of-line value adds its allocated size to both sides, inline and empty slots add nothing, children and next-layer roots are accounted one level below, shallower levels are never touched.",
         "Model bound: the level stack is instantiated with 16 entries (tree depth <= 15 in these jobs; the argument is per node and independent of depth). NOT decided: totals per depth for a whole tree (needs the structural induction), mem_usage(storage_name).", '5 (C20)'),
}
NA = {
 'C06': "schedule-quantified: the order of four loads at each node boundary against concurrent inserts is not expressible as a pre/postcondition of one call; bounded thread exploration would be a different technique family (DESIGN 6)",
 'C10': "the cursor is a resumable state machine over std::deque/std::function/std::string with cross-call state and its second sentence is concurrent; the per-function parts it shares (check_empty_scan_range, key_tuple order) are proved under C03/C18 (DESIGN 6)",
}
WIP = "not yet brought within reach of a discharged contract in this tree (see DESIGN.md 0 and 9); no other technique is substituted"

def main():
    props = [json.loads(l)['id'] for l in open(os.path.join(VERIF, 'properties.jsonl'))]
    checks = []; na = []
    for pid in props:
        if pid in P and P[pid][0]:
            _, text, note, ref = P[pid]
            checks.append({
                'property_id': pid,
                'quick_cmd': f'./check {pid} --tier quick',
                'thorough_cmd': f'./check {pid} --tier thorough',
                'evidence_file': f'/verif/evidence/{pid}.json',
                'replay_cmd_template': 'cat {path}',
                'engine': 'y2c+cbmc-dfcc',
                'level_claimed': {'category': 'proof', 'text': text, 'design_ref': 'DESIGN.md section ' + ref},
                'level_note': NOTE + note,
                'technique': TECH,
            })
        else:
            na.append({'property_id': pid, 'reason': NA.get(pid) or (P[pid][3] if pid in P and not P[pid][0] else WIP)})
    m = {
        'version': 1,
        'setup_cmd': 'python3 tools/setup.py',
        'hooks': {'guard': 'YAKUSHIMA_VERIF', 'enable': 'none needed: contracts live in /verif/contracts and are spliced into C emitted from the unmodified headers; no hook commits exist',
                  'baseline_off_cmd': 'cmake --build /repo/_build && ctest --test-dir /repo/_build -j8 --timeout 900', 'source_commits': [], 'add_only': True},
        'engines': [{'name': 'y2c+cbmc-dfcc', 'path': '/verif/tools', 'serves_properties': [c['property_id'] for c in checks],
                     'kind_free_text': 'mechanical C extraction of the real functions (clang JSON AST) + CBMC code contracts (dfcc), loop contracts, CaDiCaL'}],
        'checks': checks,
        'not_applicable': na,
        'notes': 'exit 2 from a check means undecided (timeout, tool limit, extraction mismatch) and is never a VIOLATION; see DESIGN.md 3.5',
    }
    json.dump(m, open(os.path.join(VERIF, 'MANIFEST.json'), 'w'), indent=1)
    print('claimed:', [c['property_id'] for c in checks])

if __name__ == '__main__':
    main()
