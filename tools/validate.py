#!/usr/bin/env python3
import json, sys, glob
import jsonschema
ms = json.load(open('/root/.vp/MANIFEST.schema.json')); es = json.load(open('/root/.vp/EVIDENCE.schema.json'))
m = json.load(open('/verif/MANIFEST.json')); jsonschema.validate(m, ms); print('MANIFEST ok:', len(m['checks']), 'checks,', len(m.get('not_applicable', [])), 'n/a')
for p in sorted(glob.glob('/verif/evidence/*.json')):
    e = json.load(open(p)); jsonschema.validate(e, es); print(p, 'ok', e['coverage'].get('obligations'), e['coverage'].get('discharged'))
