#!/usr/bin/env python3
"""Build one C verification unit: parse a .spec file, run the emitter on the listed roots (+ closure),
splice contracts / loop contracts, append spec code and harnesses."""
import os, re, sys, json
import yast, y2c, ylib
from yast import Abort, kids, strip_cv

class Spec:
    def __init__(self):
        self.roots = []; self.opaque = []; self.retsites = []
        self.contracts = {}; self.loops = {}; self.loop_headers = {}; self.loop_modes = {}; self.force_atomics = []
        self.pre = []; self.code = []; self.jobs = []; self.name = None; self.files = []
        self.drop = []; self.replays = {}; self.top_contracts = []; self.opaque_records = []; self.early = []; self.relies = []; self.pools = []; self.cuts = []

def parse_spec(path, spec=None, top=True, seen=None):
    spec = spec or Spec(); seen = seen if seen is not None else set()
    ap = os.path.abspath(path)
    if ap in seen: return spec
    seen.add(ap); spec.files.append(ap)
    cur = None; buf = []
    def flush():
        nonlocal cur, buf
        txt = '\n'.join(buf).strip('\n')
        if cur is None: pass
        elif cur[0] == 'contract':
            spec.contracts[cur[1]] = txt
            if top: spec.top_contracts.append(cur[1])
        elif cur[0] == 'loop':
            spec.loops[(cur[1], int(cur[2]) if cur[2].isdigit() else cur[2])] = txt
            if len(cur) > 3 and cur[3] == 'own': spec.loop_modes[(cur[1], cur[2])] = 'own'
        elif cur[0] == 'pre': spec.pre.append((ap, txt))
        elif cur[0] == 'early' and top: spec.early.append((ap, txt))
        elif cur[0] == 'code' and top: spec.code.append((ap, txt))
        elif cur[0] == 'replay': spec.replays[cur[1]] = txt
        cur = None; buf = []
    for line in open(path):
        line = line.rstrip('\n')
        m = re.match(r'\s*//@\s*(\w+)\s*(.*)', line)
        if not m:
            buf.append(line); continue
        flush()
        kw, rest = m.group(1), m.group(2).strip()
        if kw == 'unit' and top: spec.name = rest
        elif kw == 'include': parse_spec(os.path.join(os.path.dirname(path), rest), spec, False, seen)
        elif kw == 'roots': spec.roots += rest.split()
        elif kw == 'opaque': spec.opaque += rest.split()
        elif kw == 'drop': spec.drop += rest.split()
        elif kw == 'opaque_record':
            if top: spec.opaque_records += rest.split()
        elif kw == 'retsites': spec.retsites += rest.split()
        elif kw == 'contract': cur = ('contract', rest.split()[0])
        elif kw == 'loop': cur = ('loop',) + tuple(rest.split()[:3])
        elif kw == 'pre': cur = ('pre',)
        elif kw == 'early': cur = ('early',)
        elif kw == 'rely':
            if top: spec.relies += rest.split()
        elif kw == 'pool':
            if top: spec.pools += rest.split()
        elif kw == 'cut':
            if top: spec.cuts += rest.split()
        elif kw == 'atomics': spec.force_atomics += rest.split()
        elif kw == 'code': cur = ('code',)
        elif kw == 'replay': cur = ('replay', rest.split()[0])
        elif kw == 'end': cur = None
        elif kw == 'enforce':
            if top:
                parts = rest.split(); job = {'name': parts[0], 'entry': 'h_' + parts[0], 'auto': '1', 'enforce': parts[0]}
                for kv in parts[1:]:
                    k, _, v = kv.partition('='); job[k] = v
                spec.jobs.append(job)
        elif kw == 'job':
            if top:
                parts = rest.split(); job = {'name': parts[0]}
                for kv in parts[1:]:
                    k, _, v = kv.partition('='); job[k] = v
                spec.jobs.append(job)
        elif kw == 'unit': pass
        else: raise Abort(f'{path}: unknown spec keyword {kw}')
    flush()
    if top:
        for c in spec.cuts:
            spec.contracts[c] = '/* cut: unreachable under this unit\'s preconditions (the call-site obligation proves it) */\n__CPROVER_requires(0)\n__CPROVER_assigns()'
            if c not in spec.opaque: spec.opaque.append(c)
        for j in spec.jobs:
            extra = [c for c in spec.cuts if c not in j.get('stub', '').split(',') and c != j.get('enforce')]
            if extra: j['stub'] = ','.join([x for x in j.get('stub', '').split(',') if x] + extra)
    return spec

def driver_tu(records):
    lines = ['#include "kvs.h"', 'namespace yakushima {',
             '// explicit instantiations so that template bodies appear instantiated in the AST',
             'template status put<char>(Token, tree_instance*, std::string_view, char*, bool, value_length_type, char**, value_align_type, inserted_node_info*);',
             'template status get<char>(tree_instance*, std::string_view, std::pair<char*, std::size_t>&, std::pair<node_version64_body, node_version64*>*);',
             'template status scan<char>(tree_instance*, std::string_view, scan_endpoint, std::string_view, scan_endpoint, std::vector<std::tuple<std::string, char*, std::size_t>>&, std::vector<std::pair<node_version64_body, node_version64*>>*, std::size_t, bool);',
             'template value* value::create_value<true>(const void*, value_length_type, value_align_type);',
             'template value* value::create_value<false>(const void*, value_length_type, value_align_type);',
             'template status put<char*>(Token, tree_instance*, std::string_view, char**, bool, value_length_type, char***, value_align_type, inserted_node_info*);',
             '// by-name wrappers (C13)',
             'template status get<char>(std::string_view, std::string_view, std::pair<char*, std::size_t>&, std::pair<node_version64_body, node_version64*>*);',
             'template status put<char>(Token, std::string_view, std::string_view, char*, std::size_t, char**, value_align_type, bool, inserted_node_info*);',
             'template status put<char>(Token, std::string_view, std::string_view, char*, std::size_t, char**, value_align_type, bool, node_version64**);',
             'template status scan<char>(std::string_view, std::string_view, scan_endpoint, std::string_view, scan_endpoint, std::vector<std::tuple<std::string, char*, std::size_t>>&, std::vector<std::pair<node_version64_body, node_version64*>>*, std::size_t, bool);',
             'enum y_layout : std::size_t {']
    for r in records:
        lines.append(f'  y_sizeof_{r.replace("::", "__")} = sizeof({r}), y_alignof_{r.replace("::", "__")} = alignof({r}),')
    lines += ['};', '}']
    return '\n'.join(lines) + '\n'

LAYOUT_RECORDS = ['border_node', 'interior_node', 'link_or_value', 'tree_instance', 'base_node', 'value', 'thread_info',
                  'node_version64_body', 'node_version64', 'permutation', 'base_node::key_tuple']

class Unit:
    def __init__(self, ix, spec):
        self.ix = ix; self.spec = spec
        sizes = {}
        for en, vals in ix.enums.items():
            if en == 'y_layout':
                for nm, v in vals:
                    kind, _, r = nm.partition('of_'); r = r.split('__')[-1]
                    sizes.setdefault(r, {})['size' if kind == 'y_size' else 'align'] = v
        self.em = y2c.Emitter(ix, ylib.LIB, sizes=sizes, retsites=spec.retsites, opaque=spec.opaque)
        em = self.em
        em.need_dinit = set(); em.need_virtual = set()
        em.loop_contracts = dict(spec.loops); em.used_loop_contracts = set(); em.loop_modes = dict(spec.loop_modes)
        em.contracts = dict(spec.contracts)
        em.drop = set(spec.drop)

    def build(self):
        em = self.em; ix = self.ix
        for r in self.spec.roots: em.fname(em.find(r))
        for c in list(self.spec.top_contracts):
            if c.endswith('_virtual'): continue   # generated dispatcher: contract spliced in virtuals()
            em.fname(em.find(c))
        protos = []; bodies = []
        while em.queue:
            cid = em.queue.pop(0)
            if cid in em.done: continue
            em.done[cid] = True
            nm = em.names[cid]
            if nm in em.drop:
                continue
            try:
                sig, body = em.emit_function(cid)
            except Abort as a:
                raise Abort(f'in {nm}: {a}')
            protos.append(sig + ';')
            contract = em.contracts.get(nm, '')
            if body is None:
                if not contract: raise Abort('opaque function without contract: ' + nm)
                bodies.append((nm, sig + '\n' + contract + '\n;\n'))
            else:
                bodies.append((nm, sig + '\n' + (contract + '\n' if contract else '') + body))
            while em.lambda_fns:
                fname, call, caps, owner = em.lambda_fns.pop(0)
                lsig, lbody = em.emit_lambda(fname, call, caps, owner)
                protos.append(lsig + ';'); bodies.append((fname, lsig + '\n' + lbody))
        for key in self.spec.loops:
            if key[0] in [b[0] for b in bodies] and key not in em.used_loop_contracts and key[0] not in self.spec.opaque and key[0] not in self.spec.drop:
                if getattr(em, 'loop_counts', {}).get(key[0], 1) == 0 and key[1] != 'dispatch':
                    # the function has no loop at all any more: its loop contract is moot, the function contract decides
                    self.notes = getattr(self, 'notes', []) + [f'loop contract {key} unused: {key[0]} is loop-free in this tree']
                    continue
                raise Abort(f'loop contract {key} does not match any loop (loop ordinal changed)')
        virt = self.virtuals(protos)
        # the dispatchers may have pulled in more functions
        while em.queue:
            cid = em.queue.pop(0)
            if cid in em.done: continue
            em.done[cid] = True
            nm = em.names[cid]
            if nm in em.drop: continue
            sig, body = em.emit_function(cid)
            protos.append(sig + ';')
            contract = em.contracts.get(nm, '')
            bodies.append((nm, sig + '\n' + (contract + '\n' if contract else '') + (body if body is not None else ';\n')))
            while em.lambda_fns:
                fname, call, caps, owner = em.lambda_fns.pop(0)
                lsig, lbody = em.emit_lambda(fname, call, caps, owner)
                protos.append(lsig + ';'); bodies.append((fname, lsig + '\n' + lbody))
            virt = self.virtuals(protos)
        self.em.cur_name = None
        news = self.news_text()
        dinit_protos, dinit_defs = self.dinits()
        types = self.types_text()
        out = ['/* generated by y2c from /repo/include on every run - do not edit */', '#include "ystub_pre.h"', types,
               '#include "ystub_post.h"', '\n'.join(txt for ap, txt in self.spec.early), self.atomics_text(), self.globals_text(),
               '\n'.join(dinit_protos), '\n'.join(protos), '\n'.join(dinit_defs), news]
        for ap, txt in self.spec.pre: out.append(f'/* ---- pre: {os.path.basename(ap)} ---- */\n' + txt)
        out.append(virt)
        stubbable = set()
        for job in self.spec.jobs: stubbable |= {x for x in job.get('stub', '').split(',') if x}
        self.stub_info = {}
        if getattr(em, 'own_loops', None):
            self.stub_info['__loops__'] = {t: dict(v, fcontract=em.contracts.get(v['fn'], '')) for t, v in em.own_loops.items()}
        for nm, txt in bodies:
            if nm in stubbable:
                rt, params = em.sigs[nm]
                sig = txt.split('\n', 1)[0]
                self.stub_info[nm] = {'sig': sig, 'ret': rt, 'contract': em.contracts.get(nm, '')}
                if not self.stub_info[nm]['contract']: raise Abort('stub= names a function without a contract: ' + nm)
                out.append(f'#ifndef Y_STUB_{nm}\n{txt}\n#endif')
            else: out.append(txt)
        for ap, txt in self.spec.code: out.append(f'/* ---- code: {os.path.basename(ap)} ---- */\n' + txt)
        self.functions = [b[0] for b in bodies]
        for job in self.spec.jobs:
            if job.get('auto') == '1':
                f = job['enforce']
                if f not in em.sigs: raise Abort('job for a function that was not emitted: ' + f)
                rt, params = em.sigs[f]
                names = [re.split(r'[ *]', p.replace('[', ' ['))[-1] if '[' not in p else p.split('[')[0].split()[-1] for p in params]
                h = f"void h_{job['name']}(void)\n{{\n" + ''.join((f"  {p} = nondet_bool();\n" if p.startswith('bool ') else f"  {p};\n") for p in params)
                h += f"  {f}({', '.join(names)});\n  Y_VACUITY_PROBE();\n}}"
                out.append(h)
        return '\n'.join(out) + '\n'

    # ------------------------------------------------------------ types
    def rec_fields(self, rname):
        r = self.ix.records[rname]; em = self.em
        fs = []
        if rname in self.spec.opaque_records:   # the unit never looks inside this record (any access is a compile error => exit 2)
            return [(yast.T('prim', 'char'), 'y_opaque_record', None, None)]
        for b in r.get('bases', []):
            bn = strip_cv(b['type']['qualType']).split('::')[-1]
            fs.append((yast.T('rec', bn), '_base', None, None))
        for c in r.get('inner', []):
            if c.get('kind') == 'FieldDecl':
                t = em.ct(c['type'])
                bf = None
                if c.get('isBitfield'): bf = self.ix.eval_const(kids(c)[0])
                init = None
                ks = [x for x in kids(c) if not (c.get('isBitfield') and x is kids(c)[0])]
                if ks: init = ks[0]
                fs.append((t, c['name'], bf, init))
        return fs

    def is_polymorphic_root(self, rname):
        r = self.ix.records[rname]
        if r.get('bases'): return False
        return any(c.get('virtual') for c in r.get('inner', []) if c.get('kind') in y2c.FUNC_KINDS)

    def types_text(self):
        em = self.em; ty = em.ty
        out = []
        for en, vals in self.ix.enums.items():
            if en == 'y_layout': continue
            out.append(f"typedef enum {en} {{ " + ', '.join(f"{en}_{c} = {v}" for c, v in vals) + f" }} {en};")
        # closure of by-value dependencies, topologically ordered
        order = []; state = {}
        def visit_t(t):
            if t.kind == 'rec': visit_rec(t.name)
            elif t.kind in ('array', 'pair', 'tuple', 'queue', 'vector'):
                nm = ty.cname(t); visit_gen(nm, t)
            elif t.kind in ('atomic', 'carray'): visit_t(t.args[0])
            elif t.kind in ('ptr', 'ref'): fwd_t(t.args[0])
        fwd = []
        def fwd_t(t):
            if t.kind == 'rec' and t.name not in fwd: fwd.append(t.name)
            elif t.kind in ('array', 'pair', 'tuple', 'queue', 'vector'):
                nm = ty.cname(t)
                if nm not in fwd: fwd.append(nm)
                pending.append(t)
            elif t.kind in ('ptr', 'ref', 'atomic', 'carray'): fwd_t(t.args[0])
        pending = []
        def visit_rec(rn):
            if state.get(rn) == 2: return
            if state.get(rn) == 1: raise Abort('by-value record cycle ' + rn)
            if rn not in self.ix.records: raise Abort('record without definition: ' + rn)
            state[rn] = 1
            for t, nm, bf, init in self.rec_fields(rn): visit_t(t)
            state[rn] = 2; order.append(('rec', rn))
            if rn not in fwd: fwd.append(rn)
        def visit_gen(nm, t):
            if state.get(nm) == 2: return
            state[nm] = 1
            if t.kind in ('queue', 'vector'):
                fwd_t(t.args[0]); pending.append(t.args[0])
            else:
                for a in t.args: visit_t(a)
            state[nm] = 2; order.append(('gen', nm, t))
            if nm not in fwd: fwd.append(nm)
        # seeds: every generated type seen so far, every record used by emitted code
        seeds = list(ty.generated.items())
        for nm, t in seeds: visit_gen(nm, t)
        for rn in list(self.ix.records):
            if rn in self.used_record_names(): visit_rec(rn)
        # keep going until no new generated types / pending element types appear
        changed = True
        while changed:
            changed = False
            for nm, t in list(ty.generated.items()):
                if state.get(nm) != 2: visit_gen(nm, t); changed = True
            while pending:
                t = pending.pop()
                before = len(order); visit_t(t)
                if len(order) != before: changed = True
        for f in fwd: out.append(f"typedef struct {f} {f};")
        for o in order:
            if o[0] == 'rec':
                rn = o[1]; lines = [f"struct {rn} {{"]
                for t, nm, bf, init in self.rec_fields(rn):
                    lines.append(f"  {em.decl(t, nm)}{(' : %d' % bf) if bf is not None else ''};")
                if self.is_polymorphic_root(rn): lines.append("  int y_kind;")
                if len(lines) == 1: lines.append("  char y_empty;")
                lines.append("};"); out.append('\n'.join(lines))
            else:
                nm, t = o[1], o[2]
                if t.kind == 'array': out.append(f"struct {nm} {{ {em.decl(t.args[0], 'a')}[{t.n}]; }};")
                elif t.kind == 'pair': out.append(f"struct {nm} {{ {em.decl(t.args[0], 'first')}; {em.decl(t.args[1], 'second')}; }};")
                elif t.kind == 'tuple': out.append(f"struct {nm} {{ " + ' '.join(em.decl(a, '_%d' % i) + ';' for i, a in enumerate(t.args)) + " };")
                elif t.kind == 'queue': out.append(f"Y_DECLARE_QUEUE({nm}, {em.cn(t.args[0])})")
                elif t.kind == 'vector': out.append(f"Y_DECLARE_VEC({nm}, {em.cn(t.args[0])})")
        self.record_order = [o[1] for o in order if o[0] == 'rec']
        kinds = [r for r in self.record_order]
        for i, r in enumerate(kinds): out.append(f"#define Y_KIND_{r} {i + 1}")
        for r in kinds:
            path = self.kind_path(r)
            if path: out.append(f"#define Y_KINDPATH_{r}(p) ((p)->{path})")
        return '\n'.join(out)

    def kind_path(self, rn):
        path = ''
        cur = rn
        while True:
            if self.is_polymorphic_root(cur): return path + 'y_kind'
            r = self.ix.records[cur]
            if not r.get('bases'): return None
            cur = strip_cv(r['bases'][0]['type']['qualType']).split('::')[-1]; path += '_base.'

    def used_record_names(self):
        if not hasattr(self, '_used'):
            self._used = set()
            txt = getattr(self, '_scan_text', '')
            for rn in self.ix.records:
                if re.search(r'\b' + re.escape(rn) + r'\b', txt): self._used.add(rn)
        return self._used

    def atomics_text(self):
        out = []
        for fa in self.spec.force_atomics:
            nm, _, ct = fa.partition(':'); self.em.atomics.setdefault(nm, ct or nm)
        for s, c in sorted(self.em.atomics.items()):
            if s not in self.spec.relies: out.append(f"Y_RELY_DEFAULT({c}, {s})")
            out.append(f"Y_DEFINE_ATOMIC({c}, {s})")
            if c in ('uint8_t', 'uint16_t', 'uint32_t', 'uint64_t', 'int', 'int64_t'): out.append(f"Y_DEFINE_ATOMIC_ARITH({c}, {s})")
        out.append("#ifndef Y_OP_DELETE_HOOK\n#define Y_OP_DELETE_HOOK(p, size, align) ((void)0)\n#endif\n#ifndef Y_NODE_DELETE_HOOK\n#define Y_NODE_DELETE_HOOK(p) ((void)0)\n#endif\n#ifndef Y_QUEUE_POP_HOOK\n#define Y_QUEUE_POP_HOOK(Q, q, out) ((void)0)\n#endif\n#define Y_QUEUE_TRY_POP(Q, q, out) (y_queue_try_pop_##Q((q), (out)) ? (Y_QUEUE_POP_HOOK(Q, (q), (out)), 1) : 0)")
        out.append("#if defined(Y_SKELETON_VEC) && !defined(Y_VEC_ERASE_HOOK)\n#define Y_VEC_ERASE_HOOK(v, newsize) ((void)0)\n#endif")
        for nm, t in self.em.ty.generated.items():
            if t.kind == 'vector':
                e = self.em.cn(t.args[0])
                out.append(f"#if defined(Y_SKELETON_VEC) && !defined(Y_VEC_PUSH_{e})\n#define Y_VEC_PUSH_{e}(v, x) ((void)(x), (v)->size++)\n#endif")
        for r in sorted(self.em.need_new):
            kp = self.kind_path(r)
            out.append(f"static inline {r}* Y_NEW_{r}(void);")
        for r in getattr(self, 'record_order', []):
            out.append(f"#define Y_DELETE_{r}(p) y_free_node((void*)(p))")
        return '\n'.join(out)

    def news_text(self):
        out = []
        for r in sorted(self.em.need_new):
            kp = self.kind_path(r)
            sz = self.em.sizes.get(r, {}).get('size')
            if r in self.spec.pools:
                # units whose loop contracts forbid allocation inside the loop: `new R()` hands out the pre-allocated object y_pool_R
                # (bound fresh by the unit's requires); the ledger still records the allocation
                out.append(f"{r}* y_pool_{r};\nstatic inline {r}* Y_NEW_{r}(void)\n{{\n  {r}* p = y_pool_{r};\n  if (y_nodes.new_cnt < 4) y_nodes.new_ptr[y_nodes.new_cnt] = p;\n  Y_SAT_INC(y_nodes.new_cnt);\n  *p = {self.em.default_init(r)};\n"
                           + (f"  p->{kp} = Y_KIND_{r};\n" if kp else '') + "  return p;\n}")
                continue
            out.append(f"static inline {r}* Y_NEW_{r}(void)\n{{\n  {r}* p = ({r}*)y_alloc_node(sizeof({r}));\n  *p = {self.em.default_init(r)};\n"
                       + (f"  p->{kp} = Y_KIND_{r};\n" if kp else '') + "  return p;\n}")
        return '\n'.join(out)

    def globals_text(self):
        em = self.em; out = []
        for nm, d in em.used_globals.items():
            t = em.ct(d['type']); ks = kids(d); init = ''
            if ks:
                try: init = ' = %d' % self.ix.eval_const(ks[0])
                except Abort:
                    s = em.strip(ks[0])
                    if s.get('kind') in ('CXXConstructExpr',) and not kids(s): init = ''
                    else: init = ''; out.append(f"/* NOTE: initialiser of {nm} not constant-evaluable; left to the harness */")
            out.append(f"{em.decl(t, nm)}{init};")
        return '\n'.join(out)

    def user_default_ctor(self, rname):
        for cid, n in self.ix.defn.items():
            if n['kind'] == 'CXXConstructorDecl' and not n.get('isImplicit') and not n.get('explicitlyDefaulted') \
               and self.ix.parent.get(n['id']) is not None and self.ix.parent[n['id']].get('name') == rname \
               and not [p for p in n.get('inner', []) if p.get('kind') == 'ParmVarDecl']:
                return cid
        return None

    def dinits(self):
        em = self.em; protos = []; defs = []; done = set()
        todo = list(em.need_dinit)
        while todo:
            rn = todo.pop()
            if rn in done: continue
            done.add(rn)
            protos.append(f"static {rn} {rn}_dinit(void);")
            lines = [f"static {rn} {rn}_dinit(void)", "{", f"  {rn} o;"]
            em.reset_fn(rn + '_dinit', self.ix.records[rn]); em.cur_ret = rn
            for t, nm, bf, init in self.rec_fields(rn):
                def one(lhs, t):
                    if t.kind == 'rec':
                        todo.append(t.name); lines.append(f"  {lhs} = {t.name}_dinit();")
                    elif t.kind == 'array':
                        for i in range(t.n): one(f"{lhs}.a[{i}]", t.args[0])
                    elif t.kind in ('pair', 'tuple', 'queue', 'vector', 'sv', 'string'):
                        lines.append(f"  {lhs} = ({em.cn(t)}){{0}};")
                    else: lines.append(f"  {lhs} = 0;")
                if init is not None:
                    s = em.strip(init)
                    def empty_init(x):
                        return x.get('kind') == 'ImplicitValueInitExpr' or (x.get('kind') == 'InitListExpr' and all(empty_init(y) for y in kids(x)))
                    if empty_init(s) or (s.get('kind') in ('CXXConstructExpr',) and not kids(s)):
                        one(f"o.{nm}", t if t.kind != 'atomic' else t.args[0])
                    elif s.get('kind') == 'InitListExpr' and t.kind in ('tuple', 'pair'):
                        lines.append(f"  o.{nm} = ({em.cn(t)}){em.ex(s)};")
                    else:
                        pre, x = em.with_pre(lambda: em.ex(init), 1)
                        lines.append(pre + f"  o.{nm} = {x};")
                else:
                    one(f"o.{nm}", t if t.kind != 'atomic' else t.args[0])
            if self.is_polymorphic_root(rn): lines.append("  o.y_kind = 0;")
            lines += ["  return o;", "}"]
            defs.append('\n'.join(lines))
            for x in em.need_dinit:
                if x not in done: todo.append(x)
        return protos, defs

    def virtuals(self, protos):
        em = self.em; out = []
        for (rn, meth) in sorted(em.need_virtual):
            if (rn, meth) in getattr(self, '_virt_done', set()): continue
            self._virt_done = getattr(self, '_virt_done', set()) | {(rn, meth)}
            # overriders in records derived from rn
            impls = []
            for dn, r in self.ix.records.items():
                if any(strip_cv(b['type']['qualType']).split('::')[-1] == rn for b in r.get('bases', [])):
                    for c in r.get('inner', []):
                        if c.get('kind') == 'CXXMethodDecl' and c.get('name') == meth:
                            impls.append((dn, c))
            base_decl = [c for c in self.ix.records[rn]['inner'] if c.get('kind') == 'CXXMethodDecl' and c.get('name') == meth][0]
            params = [(em.ct(p['type']), p.get('name') or f'a{i}') for i, p in enumerate(x for x in base_decl.get('inner', []) if x.get('kind') == 'ParmVarDecl')]
            rt = em.cn(em.ty.parse(em.ret_type(base_decl)))
            sig = f"{rt} {rn}_{meth}_virtual({', '.join([rn + '* self'] + [em.decl(t, n) for t, n in params])})"
            protos.append(sig + ';')
            vname = f"{rn}_{meth}_virtual"
            vcontract = em.contracts.get(vname, '')
            if vname in em.opaque:
                if not vcontract: raise Abort('opaque virtual dispatcher without contract: ' + vname)
                out.append(sig + "\n" + vcontract + "\n;\n"); continue
            body = sig + "\n" + (vcontract + "\n" if vcontract else '') + "{\n"
            for dn, c in impls:
                cname = em.fname(c['id'])
                call = f"{cname}({', '.join(['(' + dn + '*)self'] + [n for t, n in params])})"
                body += f"  if (self->y_kind == Y_KIND_{dn}) {{ {'return ' if rt != 'void' else ''}{call}; {'return;' if rt == 'void' else ''} }}\n"
            body += "  Y_UNREACHABLE_VIRTUAL();\n" + (f"  {rt} y_r; return y_r;\n" if rt != 'void' else '') + "}\n"
            out.append(body)
        self._virt_text = getattr(self, '_virt_text', '') + '\n'.join(out)
        return self._virt_text


def build_unit(ast_json, spec_path):
    objs = yast.load(ast_json)
    ix = y2c.Index(objs)
    spec = parse_spec(spec_path)
    u = Unit(ix, spec)
    # two passes: first to learn which records the emitted text mentions
    txt = u.build()
    u2 = Unit(ix, spec); u2._scan_text = txt
    txt = u2.build()
    return txt, spec, u2

if __name__ == '__main__':
    try:
        txt, spec, u = build_unit(sys.argv[1], sys.argv[2])
        sys.stdout.write(txt)
    except Abort as a:
        sys.stderr.write('EXTRACTION MISMATCH: ' + str(a) + '\n'); sys.exit(2)
