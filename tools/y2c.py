#!/usr/bin/env python3
"""y2c: mechanical C emitter for yakushima functions from clang's typed JSON AST (DESIGN.md 3.1).
Everything outside the fixed tables raises yast.Abort (=> exit 2 "extraction mismatch")."""
import re, sys, os
from yast import Abort, kids, Types, T, split_top, strip_cv

FUNC_KINDS = ('FunctionDecl', 'CXXMethodDecl', 'CXXConstructorDecl', 'CXXDestructorDecl', 'CXXConversionDecl')
TRANSPARENT = ('ImplicitCastExpr', 'MaterializeTemporaryExpr', 'ExprWithCleanups', 'ConstantExpr', 'CXXBindTemporaryExpr',
               'SubstNonTypeTemplateParmExpr', 'CXXDefaultArgExpr', 'CXXDefaultInitExpr')

def san(s):
    return re.sub(r'[^A-Za-z0-9_]', '_', s)

class Index:
    def __init__(self, objs):
        self.by_id = {}        # decl id -> node
        self.parent = {}       # decl id -> enclosing record node (or None)
        self.records = {}      # short name -> definition node
        self.rec_of_id = {}    # record decl id -> short name
        self.enums = {}        # name -> [(const, value)]
        self.enum_const = {}   # const decl id -> (enum name, const name)
        self.aliases = {}
        self.funcs = {}        # id -> node (all function decls incl. specialisations)
        self.tpl_args = {}     # func id -> [arg strings]
        self.is_pattern = set()
        self.canon = {}        # id -> canonical (first) decl id
        self.defn = {}         # canonical id -> node with body
        self.globals = {}      # var id -> node (namespace / static member variables)
        self.static_canon = set()
        self.tpl_by_canon = {}
        self.lambdas = {}
        for o in objs: self.walk(o, None, False)
        self.consts = {}
        for vid, v in self.globals.items():
            try:
                val = self.eval_const(kids(v)[0]) if kids(v) else None
            except Abort:
                val = None
            if val is not None and ('const ' in v['type']['qualType'] or v.get('constexpr')):
                self.consts[vid] = val
        self.types = Types(self.aliases, set(self.records), set(self.enums))
        self.types.consts = {self.by_id[i]['name']: v for i, v in self.consts.items()}

    def walk(self, n, rec, in_tpl):
        k = n.get('kind')
        if 'id' in n and k and k.endswith('Decl'):
            self.by_id[n['id']] = n; self.parent[n['id']] = rec
        if k in ('NamespaceDecl',):
            for c in n.get('inner', []): self.walk(c, rec, in_tpl)
        elif k == 'CXXRecordDecl':
            if n.get('completeDefinition') and n.get('name') and not n.get('isImplicit'):
                self.records[n['name']] = n
                for c in n.get('inner', []): self.walk(c, n, in_tpl)
            if n.get('name'): self.rec_of_id[n['id']] = n['name']
        elif k in ('ClassTemplateDecl',):
            for c in n.get('inner', []):
                if c.get('kind') == 'ClassTemplateSpecializationDecl': pass
        elif k in ('TypeAliasDecl', 'TypedefDecl'):
            t = n['type']; self.aliases[n['name']] = t.get('desugaredQualType', t['qualType'])
            if rec is not None: self.aliases[rec['name'] + '::' + n['name']] = self.aliases[n['name']]
        elif k == 'EnumDecl':
            vals = []; cur = -1
            for c in n.get('inner', []):
                if c.get('kind') == 'EnumConstantDecl':
                    ks = kids(c)
                    cur = self.eval_const(ks[0]) if ks else cur + 1
                    vals.append((c['name'], cur)); self.enum_const[c['id']] = (n['name'], c['name'])
            self.enums[n['name']] = vals
        elif k == 'FunctionTemplateDecl':
            first = True
            for c in n.get('inner', []):
                if c.get('kind') in FUNC_KINDS:
                    self.add_func(c, rec)
                    targs = [x for x in c.get('inner', []) if x.get('kind') == 'TemplateArgument']
                    if first and not targs: self.is_pattern.add(c['id'])
                    else:
                        self.tpl_args[c['id']] = [self.targ(x) for x in targs]
                        if targs: self.tpl_by_canon[self.canon.get(c['id'], c['id'])] = self.tpl_args[c['id']]
                    first = False
        elif k in FUNC_KINDS:
            # out-of-line member definitions carry parentDeclContextId
            r = rec
            if rec is None and 'parentDeclContextId' in n and n['parentDeclContextId'] in self.by_id:
                p = self.by_id[n['parentDeclContextId']]
                if p.get('kind') == 'CXXRecordDecl': r = self.records.get(p.get('name'), p)
            self.add_func(n, r)
        elif k == 'VarDecl':
            self.globals[n['id']] = n

    def targ(self, x):
        if 'type' in x: return x['type']['qualType'].replace('yakushima::', '')
        if 'value' in x: return 'true' if x['value'] not in (0, '0') else 'false'
        raise Abort('template argument ' + str(x)[:100])

    def add_func(self, n, rec):
        self.funcs[n['id']] = n; self.parent[n['id']] = rec
        c = self.canon.get(n.get('previousDecl'), n.get('previousDecl')) if n.get('previousDecl') else n['id']
        self.canon[n['id']] = c
        if n.get('storageClass') == 'static': self.static_canon.add(c)
        if any(x.get('kind') == 'CompoundStmt' for x in n.get('inner', [])) or n.get('explicitlyDefaulted'):
            self.defn[c] = n
        self.index_locals(n)

    def index_locals(self, n):
        for c in n.get('inner', []):
            if isinstance(c, dict):
                if 'id' in c and (c.get('kind') or '').endswith('Decl'): self.by_id[c['id']] = c
                if c.get('kind') == 'LambdaExpr':
                    pass
                self.index_locals(c)

    def eval_const(self, e):
        k = e.get('kind')
        if k == 'ConstantExpr' and 'value' in e:
            v = e['value']
            return {'true': 1, 'false': 0}.get(v) if v in ('true', 'false') else int(v)
        if k in TRANSPARENT or k in ('ParenExpr', 'CStyleCastExpr', 'CXXStaticCastExpr', 'CXXFunctionalCastExpr'):
            return self.eval_const(kids(e)[-1])
        if k == 'IntegerLiteral': return int(e['value'])
        if k == 'CXXBoolLiteralExpr': return 1 if e['value'] else 0
        if k == 'DeclRefExpr':
            rid = e['referencedDecl']['id']
            if rid in self.by_id and kids(self.by_id[rid]): return self.eval_const(kids(self.by_id[rid])[0])
            raise Abort('const ref')
        if k == 'UnaryExprOrTypeTraitExpr': raise Abort('sizeof in const')
        if k == 'BinaryOperator':
            a, b = [self.eval_const(x) for x in kids(e)]
            op = e['opcode']
            r = {'<<': lambda: a << b, '>>': lambda: a >> b, '+': lambda: a + b, '-': lambda: a - b, '*': lambda: a * b,
                 '/': lambda: a // b, '|': lambda: a | b, '&': lambda: a & b}.get(op)
            if r is None: raise Abort('const op ' + op)
            return r() & 0xFFFFFFFFFFFFFFFF
        if k == 'UnaryOperator' and e['opcode'] == '~': return (~self.eval_const(kids(e)[0])) & 0xFFFFFFFFFFFFFFFF
        if k == 'UnaryOperator' and e['opcode'] == '-': return -self.eval_const(kids(e)[0])
        raise Abort('const expr ' + str(k))


class Emitter:
    def __init__(self, idx, libmap, sizes=None, retsites=(), opaque=()):
        self.ix = idx; self.ty = idx.types
        self.lib = libmap
        self.sizes = sizes or {}
        self.names = {}          # canonical func id -> C name
        self.queue = []; self.done = {}
        self.atomics = {}        # suffix -> ctype
        self.loop_contracts = {} # (cname, ordinal) -> text
        self.contracts = {}      # cname -> text
        self.retsites = set(retsites)
        self.opaque = set(opaque)   # C names emitted as prototypes only (bodies replaced by contract)
        self.lambda_fns = []
        self.used_globals = {}
        self.tmpn = 0
        self.need_new = set(); self.need_dinit = set(); self.need_virtual = set(); self.drop = set()
        self.assign_names()

    # ---------------------------------------------------------------- naming
    def base_name(self, n):
        rec = self.ix.parent.get(n['id'])
        nm = n['name']
        ops = {'operator==': 'op_eq', 'operator!=': 'op_ne', 'operator<': 'op_lt', 'operator>': 'op_gt', 'operator<=': 'op_le',
               'operator>=': 'op_ge', 'operator=': 'op_assign', 'operator<<': 'op_shl', 'operator()': 'op_call'}
        nm = ops.get(nm, nm)
        if n['kind'] == 'CXXConstructorDecl': nm = 'ctor'
        if n['kind'] == 'CXXDestructorDecl': nm = 'dtor'
        pre = (rec['name'] + '_') if rec is not None and rec.get('name') else ''
        ta = self.ix.tpl_args.get(n['id']) or self.ix.tpl_by_canon.get(self.ix.canon.get(n['id'], n['id']))
        if ta: nm += '_' + '_'.join(san(a.replace(' *', 'p').replace('*', 'p')) for a in ta)
        return pre + san(nm)

    def assign_names(self):
        groups = {}
        for cid, n in self.ix.defn.items():
            if n['id'] in self.ix.is_pattern or cid in self.ix.is_pattern: continue
            if n.get('isImplicit'): continue
            groups.setdefault(self.base_name(n), []).append((cid, n))
        for b, lst in groups.items():
            if len(lst) == 1: self.names[lst[0][0]] = b; continue
            seen = {}
            for cid, n in lst:
                np_ = len([p for p in n.get('inner', []) if p.get('kind') == 'ParmVarDecl'])
                seen.setdefault(np_, []).append(cid)
            for np_, ids in seen.items():
                pfx = b if len(seen) == 1 else f"{b}_p{np_}"
                if len(ids) == 1: self.names[ids[0]] = f"{b}_p{np_}"
                else:
                    # overloads with the same arity: the tree_instance* form keeps the plain name, the by-name wrapper gets
                    # `_by_name`, the legacy node_version64** out-parameter `_legacy`; anything else falls back to the types
                    used = {}
                    for cid in ids:
                        n = self.ix.defn[cid]
                        ps = [p['type']['qualType'] for p in n.get('inner', []) if p.get('kind') == 'ParmVarDecl']
                        suffix = '' if any('tree_instance *' in x and 'pair<' not in x for x in ps) else '_by_name'
                        if ps and 'node_version64 **' in ps[-1]: suffix += '_legacy'
                        nm = pfx + suffix
                        if nm in used:
                            key = san('_'.join(strip_cv(x).split('::')[-1].replace(' *', 'p').replace(' &', 'r') for x in ps))[-40:]
                            nm = f"{pfx}_{key}"
                        used[nm] = cid; self.names[cid] = nm

    def fname(self, fid):
        cid = self.ix.canon.get(fid, fid)
        if cid not in self.names:
            n = self.ix.funcs.get(fid)
            raise Abort('no emit-able definition for function id %s (%s)' % (fid, n.get('name') if n else '?'))
        if cid not in self.done and cid not in self.queue: self.queue.append(cid)
        return self.names[cid]

    def find(self, cname):
        for cid, nm in self.names.items():
            if nm == cname: return cid
        raise Abort('listed function missing: ' + cname)

    # ---------------------------------------------------------------- types
    def ct(self, tj): return self.ty.ctype(tj)
    def cn(self, t): return self.ty.cname(t)
    def decl(self, t, name):
        if t.kind == 'carray': return f"{self.cn(t.args[0])} {name}[{t.n}]"
        return f"{self.cn(t)} {name}"

    def is_ref_decl(self, did):
        d = self.ix.by_id.get(did)
        if d is None or 'type' not in d: return False
        q = d['type'].get('desugaredQualType', d['type']['qualType']).strip()
        return q.endswith('&')

    def atomic_suffix(self, t):
        if t.kind == 'atomic': t = t.args[0]
        c = self.cn(t); s = san(c.replace('*', '_p'))
        self.atomics[s] = c
        return s

    # ---------------------------------------------------------------- expressions
    def strip(self, e):
        while e.get('kind') in TRANSPARENT or e.get('kind') == 'ParenExpr':
            e = kids(e)[-1] if e.get('kind') in ('CXXDefaultArgExpr', 'SubstNonTypeTemplateParmExpr', 'CXXDefaultInitExpr') and kids(e) else kids(e)[0]
        return e

    def callee_decl(self, fn):
        while fn.get('kind') in ('ImplicitCastExpr', 'ParenExpr'): fn = kids(fn)[0]
        if fn.get('kind') == 'DeclRefExpr': return fn['referencedDecl']
        if fn.get('kind') == 'MemberExpr': return {'id': fn['referencedMemberDecl'], 'name': fn['name'], 'kind': 'CXXMethodDecl'}
        if fn.get('kind') == 'UnresolvedLookupExpr': raise Abort('unresolved call (uninstantiated template)')
        raise Abort('callee ' + str(fn.get('kind')))

    def qual_of(self, did, fallback):
        """qualified name std::... for library callees; yakushima functions are handled by id"""
        return fallback

    def tmp(self):
        self.tmpn += 1; return f"y_t{self.tmpn}"

    def addr(self, e):
        """C expression for the address of the C++ glvalue / temporary e (used for reference binding and `this`)"""
        s = self.strip(e) if e.get('kind') in TRANSPARENT else e
        inner = e
        while inner.get('kind') in ('ImplicitCastExpr', 'ExprWithCleanups', 'CXXBindTemporaryExpr') and inner.get('castKind') in (None, 'NoOp'):
            inner = kids(inner)[0]
        if inner.get('kind') == 'MaterializeTemporaryExpr' or inner.get('valueCategory') == 'prvalue':
            t = self.ct(inner['type'])
            return f"(&({self.cn(t)}){{{self.ex(inner)}}})" if t.kind in ('prim', 'ptr', 'enum') else f"(&({self.cn(t)}[1]){{{self.ex(inner)}}}[0])"
        x = self.ex(e)
        if x.startswith('(*') and x.endswith(')') and self.balanced(x[2:-1]): return x[2:-1]
        return f"(&{x})"

    @staticmethod
    def balanced(s):
        d = 0
        for ch in s:
            if ch == '(': d += 1
            elif ch == ')':
                d -= 1
                if d < 0: return False
        return d == 0

    def ex(self, e):
        k = e.get('kind')
        m = getattr(self, 'ex_' + k, None)
        if m is None: raise Abort('unknown expression node kind ' + str(k))
        return m(e)

    def ex_ImplicitCastExpr(self, e):
        ck = e.get('castKind'); sub = kids(e)[0]
        if ck in ('LValueToRValue', 'NoOp', 'FunctionToPointerDecay', 'ConstructorConversion', 'UserDefinedConversion'):
            return self.ex(sub)
        if ck == 'ArrayToPointerDecay': return self.ex(sub)
        if ck in ('IntegralCast', 'IntegralToBoolean', 'PointerToBoolean', 'BitCast', 'IntegralToPointer', 'PointerToIntegral', 'BooleanToSignedIntegral'):
            t = self.ct(e['type'])
            if ck in ('IntegralToBoolean', 'PointerToBoolean'): return f"(({self.ex(sub)}) != 0)"
            return f"(({self.cn(t)}){self.ex(sub)})"
        if ck == 'NullToPointer': return '0'
        if ck in ('DerivedToBase', 'UncheckedDerivedToBase'):
            st = self.ct(sub['type'])
            if st.kind == 'atomic' or (st.kind == 'ptr' and st.args[0].kind == 'atomic'): return self.ex(sub)
            if st.kind == 'ptr' or sub.get('kind') == 'CXXThisExpr' or self.ct(e['type']).kind == 'ptr':
                return f"(&({self.ex(sub)})->_base)"
            return f"(({self.ex(sub)})._base)"
        if ck == 'BaseToDerived':
            return f"(({self.cn(self.ct(e['type']))}){self.ex(sub)})"
        raise Abort('cast kind ' + str(ck))
    def ex_ParenExpr(self, e): return '(' + self.ex(kids(e)[0]) + ')'
    def ex_MaterializeTemporaryExpr(self, e): return self.ex(kids(e)[0])
    ex_ExprWithCleanups = ex_ConstantExpr = ex_CXXBindTemporaryExpr = ex_MaterializeTemporaryExpr
    def ex_SubstNonTypeTemplateParmExpr(self, e): return self.ex(kids(e)[-1])
    def ex_CXXDefaultArgExpr(self, e):
        ks = kids(e)
        if ks: return self.ex(ks[-1])
        return self.default_arg   # set by call printer
    def ex_CXXDefaultInitExpr(self, e): return self.ex(kids(e)[-1])
    def ex_CXXThisExpr(self, e): return 'self'
    def ex_IntegerLiteral(self, e):
        t = self.ct(e['type']); c = self.cn(t)
        suf = {'uint64_t': 'UL', 'uint32_t': 'U', 'int64_t': 'L'}.get(c, '')
        return e['value'] + suf
    def ex_CXXBoolLiteralExpr(self, e): return '1' if e['value'] else '0'
    def ex_CXXNullPtrLiteralExpr(self, e): return '0'
    def ex_CharacterLiteral(self, e): return str(e['value'])
    def ex_StringLiteral(self, e):
        v = e.get('value', '""')
        if v == '""': return 'Y_EMPTY_STR'
        return 'Y_STR(' + v + ')'
    def ex_GNUNullExpr(self, e): return '0'

    def ex_DeclRefExpr(self, e):
        rd = e['referencedDecl']; rid = rd['id']; rk = rd['kind']
        if rk == 'EnumConstantDecl':
            if rid in self.ix.enum_const:
                en, cn_ = self.ix.enum_const[rid]; return f"{en}_{cn_}"
            if rd['name'].startswith('memory_order'): return 'Y_MO'
            raise Abort('enum constant ' + rd['name'])
        if rk == 'BindingDecl':
            return self.bindings[rid]
        if rk in ('VarDecl', 'ParmVarDecl'):
            if rid in self.ix.consts and rid in self.ix.globals: return self.const_lit(rid)
            if rid in self.ix.globals: return self.global_ref(rid)
            nm = self.local_names.get(rid, rd['name'])
            return f"(*{nm})" if self.is_ref_decl(rid) else nm
        if rk in FUNC_KINDS: return self.fname(rid)
        if rk == 'NonTypeTemplateParmDecl': raise Abort('uninstantiated template parameter')
        raise Abort('DeclRef kind ' + rk)

    def const_lit(self, rid):
        v = self.ix.consts[rid]; d = self.ix.by_id[rid]
        c = self.cn(self.ct(d['type']))
        return f"(({c}){v}UL)" if v >= 0 else f"(({c}){v})"

    def global_ref(self, rid):
        d = self.ix.by_id[rid]; rec = self.ix.parent.get(rid)
        nm = ((rec['name'] + '_') if rec is not None else '') + d['name']
        self.used_globals[nm] = d
        return nm

    def ex_MemberExpr(self, e):
        base = kids(e)[0]; b = self.ex(base)
        mid = e.get('referencedMemberDecl')
        if mid in self.ix.globals:  # static member through object
            return self.const_lit(mid) if mid in self.ix.consts else self.global_ref(mid)
        bt = self.ct(base['type']) if 'type' in base else None
        name = e['name']
        if e.get('isArrow'):
            if b.startswith('(&') and b.endswith(')') and self.balanced(b[2:-1]): return f"{b[2:-1]}.{name}"
            return f"{b}->{name}"
        return f"{b}.{name}"

    def ex_ArraySubscriptExpr(self, e):
        a, i = kids(e); return f"{self.ex(a)}[{self.ex(i)}]"

    def ex_UnaryOperator(self, e):
        sub = kids(e)[0]; op = e['opcode']
        if op == '&': return self.addr(sub)
        if op == '*':
            x = self.ex(sub)
            if x.startswith('(&') and x.endswith(')') and self.balanced(x[2:-1]): return x[2:-1]
            return f"(*{x})"
        x = self.ex(sub)
        if op == '__extension__': return x
        return f"({x}{op})" if e.get('isPostfix') else f"({op}{x})"

    def ex_BinaryOperator(self, e):
        a, b = kids(e); op = e['opcode']
        if op == ',': return f"({self.ex(a)}, {self.ex(b)})"
        if op == '=' and self.ct(e['type']).kind in ('rec', 'pair', 'tuple') and self.strip(b).get('kind') == 'InitListExpr':
            t = self.ct(e['type']); return f"({self.ex(a)} = ({self.cn(t)}){self.ex(self.strip(b))})"
        return f"({self.ex(a)} {op} {self.ex(b)})"
    def ex_CompoundAssignOperator(self, e):
        a, b = kids(e); return f"({self.ex(a)} {e['opcode']} {self.ex(b)})"
    def ex_ConditionalOperator(self, e):
        c, a, b = kids(e); return f"({self.ex(c)} ? {self.ex(a)} : {self.ex(b)})"

    def cast_to(self, e):
        t = self.ct(e['type']); sub = kids(e)[-1]
        if t.kind == 'prim' and t.name == 'void': return f"((void){self.ex(sub)})"
        if t.kind in ('rec', 'pair', 'tuple', 'sv', 'string'): return self.ex(sub)
        if t.kind == 'ref': return self.ex(sub)
        if e.get('castKind') == 'IntegralToPointer' or (t.kind == 'ptr' and 'type' in sub and self.ct(sub['type']).kind == 'prim' and self.strip(sub).get('kind') not in ('CXXNullPtrLiteralExpr',)):
            return f"(({self.cn(t)})y_int2ptr((uint64_t)({self.ex(sub)})))"
        return f"(({self.cn(t)}){self.ex(sub)})"
    def ex_CStyleCastExpr(self, e): return self.cast_to(e)
    def ex_CXXStaticCastExpr(self, e):
        if e.get('castKind') in ('DerivedToBase', 'UncheckedDerivedToBase', 'BaseToDerived'):
            return self.ex_ImplicitCastExpr(e)
        return self.cast_to(e)
    ex_CXXReinterpretCastExpr = ex_CStyleCastExpr
    ex_CXXConstCastExpr = ex_CStyleCastExpr
    def ex_CXXFunctionalCastExpr(self, e):
        if e.get('castKind') == 'ConstructorConversion': return self.ex(kids(e)[-1])
        return self.cast_to(e)
    def ex_CXXDynamicCastExpr(self, e):
        t = self.ct(e['type']); sub = kids(e)[-1]
        if t.kind != 'ptr' or t.args[0].kind != 'rec': raise Abort('dynamic_cast target')
        tgt = t.args[0].name
        src = self.ct(sub['type'])
        if src.kind == 'ptr' and src.args[0].kind == 'rec' and src.args[0].name == tgt: return self.ex(sub)   # upcast/no-op
        if self.is_base_of(tgt, src.args[0].name):   # dynamic_cast<base*>(derived*) == static upcast
            return f"(&({self.ex(sub)})->_base)"
        return f"Y_DYNCAST({tgt}, {self.ex(sub)})"
    def is_base_of(self, base, derived):
        r = self.ix.records.get(derived)
        return bool(r) and any(strip_cv(b['type']['qualType']).split('::')[-1] == base for b in r.get('bases', []))

    def ex_UnaryExprOrTypeTraitExpr(self, e):
        nm = e.get('name')
        if 'argType' in e: q = e['argType'].get('desugaredQualType', e['argType']['qualType'])
        else: q = kids(e)[0]['type'].get('desugaredQualType', kids(e)[0]['type']['qualType'])
        t = self.ty.parse(q)
        if nm == 'sizeof':
            if t.kind == 'rec':
                if t.name not in self.sizes: raise Abort('sizeof(%s) not measured' % t.name)
                return f"((uint64_t){self.sizes[t.name]['size']}UL)"
            return f"((uint64_t)sizeof({self.cn(t)}))"
        if nm == 'alignof':
            if t.kind == 'rec':
                if t.name not in self.sizes: raise Abort('alignof(%s) not measured' % t.name)
                return f"((uint64_t){self.sizes[t.name]['align']}UL)"
            return f"((uint64_t)_Alignof({self.cn(t)}))"
        raise Abort('type trait ' + str(nm))

    def ex_InitListExpr(self, e):
        t = self.ct(e['type']); ks = kids(e)
        if t.kind in ('prim', 'ptr', 'enum'): return self.ex(ks[0]) if ks else '0'
        if len(ks) == 1 and 'type' in ks[0]:
            try:
                kt = self.ct(ks[0]['type'])
                if kt.kind == t.kind and self.cn(kt) == self.cn(t): return self.ex(ks[0])   # T x{expr of type T}: copy
            except Abort: pass
        return '{' + ', '.join(self.ex(x) for x in ks) + '}' if ks else '{0}'

    def ex_CXXScalarValueInitExpr(self, e): return '0'
    def ex_ImplicitValueInitExpr(self, e): return '0'

    def ex_CXXConstructExpr(self, e):
        t = self.ct(e['type']); ks = kids(e); c = self.cn(t)
        cid = None
        if t.kind in ('prim', 'ptr', 'enum'): return self.ex(ks[0]) if ks else '0'
        if t.kind == 'atomic':  # std::atomic<T>{init}
            return self.ex(ks[0]) if ks else '0'
        if t.kind in ('pair', 'tuple'):
            if not ks: return f"({c}){{0}}"
            if len(ks) == 1 and self.ct(ks[0]['type']).kind in ('pair', 'tuple'):
                st = self.ct(ks[0]['type'])
                if self.cn(st) == c: return self.ex(ks[0])
                return self.convert_tuple(st, t, self.ex(ks[0]))
            return f"({c}){{{', '.join(self.ex(x) for x in ks)}}}"
        if t.kind == 'sv':
            if not ks: return '((y_sv){0, 0})'
            if len(ks) == 1:
                st = self.ct(ks[0]['type'])
                if st.kind == 'sv': return self.ex(ks[0])
                if st.kind == 'string': return f"y_string_view(&{self.ex(ks[0])})"
                return f"y_sv_from_cstr({self.ex(ks[0])})"
            if len(ks) == 2: return f"((y_sv){{{self.ex(ks[0])}, {self.ex(ks[1])}}})"
        if t.kind == 'string':
            if not ks: return 'y_string_empty()'
            st = self.ct(ks[0]['type'])
            if st.kind == 'string': return self.ex(ks[0])
            if st.kind == 'sv': return f"y_string_from_sv({self.ex(ks[0])})"
        if t.kind == 'vector' and not ks: return f"({c}){{0}}"
        if t.kind in ('vector', 'string') and len(ks) == 1 and self.cn(self.ct(ks[0]['type'])) == c: return self.ex(ks[0])
        if t.kind == 'rec':
            ctor = e.get('ctorType', {}).get('qualType', '')
            if not ks:   # default / value initialisation: default member initialisers
                return self.default_init(t.name)
            if len(ks) == 1 and self.ct(ks[0]['type']).kind == 'rec' and self.ct(ks[0]['type']).name == t.name:
                return self.ex(ks[0])      # copy / move
            return f"{t.name}_ctor_p{len(ks)}_v({', '.join(self.ex(x) for x in ks)})" if False else self.user_ctor(t.name, ks)
        raise Abort('construct ' + repr(t) + ' with %d args' % len(ks))

    ex_CXXTemporaryObjectExpr = ex_CXXConstructExpr

    def convert_tuple(self, st, t, x):
        fs = self.fields_of(st); ft = self.fields_of(t)
        tv = self.tmp()
        self.pre.append(f"{self.cn(st)} {tv} = {x};")
        return f"({self.cn(t)}){{{', '.join(tv + '.' + f for f in fs)}}}"

    def fields_of(self, t):
        if t.kind == 'pair': return ['first', 'second']
        return ['_%d' % i for i in range(len(t.args))]

    def default_init(self, rname):
        """value of a default-constructed yakushima POD: its default member initialisers"""
        cid = self.user_default_ctor(rname)
        if cid is not None and self.cur_name != self.names.get(cid): return f"{self.fname(cid)}()"
        self.need_dinit.add(rname)
        return f"{rname}_dinit()"

    def user_default_ctor(self, rname):
        for cid, n in self.ix.defn.items():
            if n['kind'] == 'CXXConstructorDecl' and not n.get('isImplicit') and not n.get('explicitlyDefaulted') \
               and self.ix.parent.get(n['id']) is not None and self.ix.parent[n['id']].get('name') == rname \
               and not [p for p in n.get('inner', []) if p.get('kind') == 'ParmVarDecl'] and cid in self.names:
                return cid
        return None

    def user_ctor(self, rname, args):
        # find constructor by arity among definitions
        cands = [(cid, n) for cid, n in self.ix.defn.items() if n['kind'] == 'CXXConstructorDecl'
                 and self.ix.parent.get(n['id']) is not None and self.ix.parent[n['id']].get('name') == rname
                 and len([p for p in n.get('inner', []) if p.get('kind') == 'ParmVarDecl']) == len(args) and not n.get('isImplicit')]
        if len(cands) != 1: raise Abort(f'constructor {rname}/{len(args)}: {len(cands)} candidates')
        cid, n = cands[0]
        params = [p for p in n['inner'] if p.get('kind') == 'ParmVarDecl']
        nm = self.fname(cid)
        return f"{nm}({', '.join(self.arg(a, p) for a, p in zip(args, params))})"

    def arg(self, a, p):
        """argument a bound to parameter decl p (reference parameters take an address)"""
        q = p['type'].get('desugaredQualType', p['type']['qualType']).strip()
        if a.get('kind') == 'CXXDefaultArgExpr' and not kids(a):
            d = kids(p)
            if not d: d = self.find_default(p)
            if not d: raise Abort('default argument not found for parameter ' + str(p.get('name')))
            a = d[0]
        if q.endswith('&'): return self.addr(a)
        return self.ex(a)

    def find_default(self, p):
        # the default may sit on another redeclaration of the same function: search by parameter name + type
        for fid, n in self.ix.funcs.items():
            for c in n.get('inner', []):
                if c.get('kind') == 'ParmVarDecl' and c.get('name') == p.get('name') and c['type']['qualType'] == p['type']['qualType'] and kids(c):
                    return kids(c)
        return None

    def ex_CXXNewExpr(self, e):
        t = self.ct(e['type'])
        if t.kind != 'ptr' or t.args[0].kind != 'rec': raise Abort('new of non-record')
        r = t.args[0].name; ks = kids(e)
        if e.get('isPlacement'):
            # placement new(page) value{len, align}
            place = ks[0] if ks[0].get('kind') != 'CXXConstructExpr' else ks[1]
            ctor = [x for x in ks if x.get('kind') == 'CXXConstructExpr'][0]
            tv = self.tmp()
            self.pre.append(f"{r}* {tv} = ({r}*)({self.ex(place)});")
            self.pre.append(f"*{tv} = {self.ex(ctor)};")
            return tv
        self.need_new.add(r)
        return f"Y_NEW_{r}()"

    def ex_CXXDeleteExpr(self, e):
        sub = kids(e)[0]; t = self.ct(sub['type'])
        r = t.args[0].name if t.kind == 'ptr' and t.args[0].kind == 'rec' else None
        if r is None: raise Abort('delete of non-record')
        return f"Y_DELETE_{r}({self.ex(sub)})"

    def ex_CXXTypeidExpr(self, e):
        ks = kids(e)
        if ks:
            ot = self.ct(ks[0]['type'])
            if ot.kind != 'rec': raise Abort('typeid operand')
            return f"Y_KINDPATH_{ot.name}({self.addr(ks[0])})"
        q = e.get('typeArg', {}).get('qualType') or e.get('argType', {}).get('qualType')
        if q is None: raise Abort('typeid form')
        return f"Y_KIND_{san(strip_cv(q).split('::')[-1])}"

    def ex_AtomicExpr(self, e):
        ks = kids(e); t = self.ct(e['type'])
        pt = self.ct(ks[0]['type'])
        if pt.kind != 'ptr': raise Abort('atomic builtin pointer operand')
        suf = self.atomic_suffix(pt.args[0])
        if len(ks) == 2 and not (t.kind == 'prim' and t.name == 'void'):
            return f"Y_LOAD_{suf}({self.ex(ks[0])})"
        if len(ks) == 3 and t.kind == 'prim' and t.name == 'void':
            vt = self.ct(ks[2]['type'])
            if self.cn(vt) == self.cn(pt): raise Abort('generic __atomic_load/__atomic_store form')
            return f"Y_STORE_{suf}({self.ex(ks[0])}, {self.ex(ks[2])})"
        if len(ks) == 6 and t.kind == 'prim' and t.name == 'bool':
            return f"Y_CAS_{suf}({self.ex(ks[0])}, {self.ex(ks[2])}, {self.ex(ks[4])})"
        raise Abort('atomic builtin shape (%d operands)' % len(ks))

    def ex_LambdaExpr(self, e):
        raise Abort('lambda outside a supported position')

    def ex_CXXStdInitializerListExpr(self, e): return self.ex(kids(e)[0])

    # ---------------------------------------------------------------- calls
    def ex_CallExpr(self, e):
        ks = kids(e); fn = ks[0]; args = ks[1:]
        f0 = self.strip(fn) if fn.get('kind') in TRANSPARENT else fn
        while f0.get('kind') in ('ImplicitCastExpr', 'ParenExpr'): f0 = kids(f0)[0]
        if f0.get('kind') == 'DeclRefExpr' and f0['referencedDecl']['id'] in self.lambda_vars:
            return self.call_lambda(f0['referencedDecl']['id'], args)
        rd = self.callee_decl(fn)
        return self.call(rd, None, args, e)

    def ex_CXXMemberCallExpr(self, e):
        ks = kids(e); me = ks[0]; args = ks[1:]
        while me.get('kind') in ('ImplicitCastExpr', 'ParenExpr'): me = kids(me)[0]
        if me.get('kind') != 'MemberExpr': raise Abort('member call through ' + str(me.get('kind')))
        obj = kids(me)[0]
        rd = {'id': me['referencedMemberDecl'], 'name': me['name'], 'kind': 'CXXMethodDecl'}
        return self.call(rd, (obj, me.get('isArrow')), args, e)

    def ex_CXXOperatorCallExpr(self, e):
        ks = kids(e); fn = ks[0]; args = ks[1:]
        rd = self.callee_decl(fn); op = rd['name']
        if args and self.strip(args[0]).get('kind') == 'DeclRefExpr' and self.strip(args[0])['referencedDecl']['id'] in self.lambda_vars and op == 'operator()':
            return self.call_lambda(self.strip(args[0])['referencedDecl']['id'], args[1:])
        if rd['id'] in self.ix.funcs and self.ix.canon.get(rd['id'], rd['id']) in self.ix.defn:
            d = self.ix.defn[self.ix.canon.get(rd['id'], rd['id'])]
            if d.get('explicitlyDefaulted') or d.get('isImplicit'):
                if op == 'operator=': return f"({self.ex(args[0])} = {self.ex(args[1])})"
                raise Abort('defaulted ' + op)
            if d['kind'] == 'CXXMethodDecl':
                return self.call(rd, (args[0], False), args[1:], e)
            return self.call(rd, None, args, e)
        if rd['id'] in self.ix.funcs:   # implicit operator= of a yakushima POD
            if op == 'operator=': return f"({self.ex(args[0])} = {self.ex(args[1])})"
        return self.libcall(op, rd, (args[0], False), args[1:], e, operator=True)

    def call(self, rd, obj, args, e):
        fid = rd['id']
        if fid in self.ix.funcs:
            cid = self.ix.canon.get(fid, fid)
            n = self.ix.defn.get(cid) or self.ix.funcs[fid]
            if n.get('virtual') or n.get('pure'):
                if obj is None: raise Abort('virtual call without object')
                o, arrow = obj
                recv = self.ex(o) if arrow else self.addr(o)
                rec = self.ix.parent.get(fid)
                self.need_virtual.add((rec['name'], rd['name']))
                params = [p for p in n.get('inner', []) if p.get('kind') == 'ParmVarDecl']
                return f"{rec['name']}_{rd['name']}_virtual({', '.join([recv] + [self.arg(a, p) for a, p in zip(args, params)])})"
            if cid not in self.ix.defn:
                if n.get('isImplicit') or n.get('explicitlyDefaulted'):
                    if rd['name'] == 'operator=': return f"({self.ex(obj[0])} = {self.ex(args[0])})"
                raise Abort('call to yakushima function without body: ' + rd['name'])
            params = [p for p in n.get('inner', []) if p.get('kind') == 'ParmVarDecl']
            al = []
            for i, p in enumerate(params):
                if i < len(args): al.append(self.arg(args[i], p))
                else: raise Abort('missing argument')
            if n['kind'] == 'CXXMethodDecl' and n.get('storageClass') != 'static' and cid not in self.ix.static_canon:
                if obj is None: raise Abort('method without object ' + rd['name'])
                o, arrow = obj
                al = [self.ex(o) if arrow else self.addr(o)] + al
            s = f"{self.fname(cid)}({', '.join(al)})"
            rt = self.ret_type(n)
            if rt.endswith('&'): s = f"(*{s})"
            return s
        return self.libcall(rd['name'], rd, obj, args, e)

    def ret_type(self, n):
        q = n['type']['qualType']
        # strip the parameter list: find matching '(' of last ')'
        d = 0
        for i in range(len(q) - 1, -1, -1):
            if q[i] == ')': d += 1
            elif q[i] == '(':
                d -= 1
                if d == 0: return self.resolve_alias_str(q[:i].strip())
        raise Abort('function type ' + q)

    def resolve_alias_str(self, s): return s

    def libcall(self, name, rd, obj, args, e, operator=False):
        ot = None
        if obj is not None:
            o, arrow = obj
            ot = self.ct(o['type'])
            if arrow and ot.kind == 'ptr': ot = ot.args[0]
            if ot.kind == 'ref': ot = ot.args[0]
        key = (ot.kind if ot is not None else 'free', name)
        h = self.lib.get(key)
        if h is None and ot is not None and ot.kind == 'atomic' and re.fullmatch(r'operator [A-Za-z_ :]+', name):
            h = self.lib.get(('atomic', 'load'))
        if h is None: raise Abort('unknown library callee %s on %s' % (name, ot.kind if ot is not None else 'free'))
        return h(self, obj, ot, args, e)

    # ---------------------------------------------------------------- statements
    def st(self, n, ind):
        k = n.get('kind'); p = '  ' * ind
        m = getattr(self, 'st_' + k, None)
        if m is not None: return m(n, ind)
        # expression statement
        self.pre = []
        x = self.exprstmt(n)
        return ''.join(p + l + '\n' for l in self.pre) + (p + x + ';\n' if x else '')

    def exprstmt(self, n):
        s = self.strip(n)
        if self.is_log_stream(s): return 'Y_LOG_ERROR()'
        return self.ex(n)

    def is_log_stream(self, s):
        if s.get('kind') == 'CXXOperatorCallExpr' and 'ostream' in s.get('type', {}).get('qualType', ''):
            return True
        if s.get('kind') == 'CXXMemberCallExpr' and 'ostream' in s.get('type', {}).get('qualType', ''): return True
        return False

    def with_pre(self, f, ind):
        """evaluate expression printer f with hoisted temporaries; returns (pre_lines_text, expr)"""
        saved = self.pre; self.pre = []
        x = f()
        pre = ''.join('  ' * ind + l + '\n' for l in self.pre); self.pre = saved
        return pre, x

    def st_CompoundStmt(self, n, ind):
        p = '  ' * ind
        self.hoist_depth = getattr(self, 'hoist_depth', 0) + 1
        try:
            return p + '{\n' + ''.join(self.st(c, ind + 1) for c in kids(n)) + p + '}\n'
        finally:
            self.hoist_depth -= 1
    def st_NullStmt(self, n, ind): return '  ' * ind + ';\n'
    def st_BreakStmt(self, n, ind): return '  ' * ind + 'break;\n'
    def st_ContinueStmt(self, n, ind): return '  ' * ind + 'continue;\n'
    def st_GotoStmt(self, n, ind):
        lab = self.ix.by_id.get(n['targetLabelDeclId'], {}).get('name') or self.labels.get(n['targetLabelDeclId'])
        if lab is None: raise Abort('goto target')
        if lab in getattr(self, 'dispatch_labels', {}):
            return '  ' * ind + f'{{ y_pc = {self.dispatch_labels[lab]}; goto y_dispatch_next; }}\n'
        return '  ' * ind + f'goto {lab};\n'
    def st_LabelStmt(self, n, ind):
        self.labels[n['declId']] = n['name']
        return '  ' * max(ind - 1, 0) + n['name'] + ':;\n' + ''.join(self.st(c, ind) for c in kids(n))
    def st_ReturnStmt(self, n, ind):
        p = '  ' * ind; ks = kids(n)
        self.retn += 1
        site = f"y_ret_site = {self.retn}; " if self.cur_name in self.retsites else ''
        if not ks: return p + ('{ ' + site + 'return; }\n' if site else 'return;\n')
        pre, x = self.with_pre(lambda: self.ret_value(ks[0]), ind)
        if pre or site: return p + '{\n' + pre + p + '  ' + site + 'return ' + x + ';\n' + p + '}\n'
        return p + 'return ' + x + ';\n'
    def ret_value(self, e):
        if self.cur_ret.endswith('&'): return self.addr(e)
        rt = self.ty.parse(self.cur_ret)
        s = self.strip(e)
        if s.get('kind') == 'InitListExpr' and rt.kind in ('rec', 'pair', 'tuple'): return f"({self.cn(rt)}){self.ex(s)}"
        return self.ex(e)

    def st_DeclStmt(self, n, ind):
        out = ''
        for v in kids(n):
            out += self.vardecl(v, ind)
        return out

    def vardecl(self, v, ind):
        p = '  ' * ind; k = v.get('kind')
        if k == 'DecompositionDecl': return self.decomp(v, ind)
        if k in ('StaticAssertDecl', 'UsingDecl', 'TypeAliasDecl', 'UsingDirectiveDecl', 'TypedefDecl'): return ''
        if k != 'VarDecl': raise Abort('declaration kind ' + str(k))
        ks = kids(v)
        q = v['type'].get('desugaredQualType', v['type']['qualType']).strip()
        nm = self.uniq_local(v)
        if ks and self.strip(ks[0]).get('kind') == 'LambdaExpr':
            self.lambda_vars[v['id']] = self.make_lambda(self.strip(ks[0]), nm)
            return ''
        if q.endswith('&'):
            t = self.ct(v['type'])
            pre, x = self.with_pre(lambda: self.addr(ks[0]), ind)
            return pre + self.declline(p, f"{self.cn(t)} {nm}", nm, x, self.cn(t))
        t = self.ct(v['type'])
        if v.get('constexpr') and ks:
            try:
                val = self.ix.eval_const(ks[0])
                return self.declline(p, self.decl(t, nm), nm, str(val), self.cn(t))
            except Abort: pass
        if not ks:
            if t.kind == 'rec': return self.declline(p, self.decl(t, nm), nm, self.default_init(t.name), self.cn(t))
            if t.kind == 'string': return self.declline(p, self.decl(t, nm), nm, 'y_string_empty()', self.cn(t))
            if t.kind in ('pair', 'tuple', 'vector', 'sv'): return self.declline(p, self.decl(t, nm), nm, '{0}', self.cn(t))
            return self.declline(p, self.decl(t, nm), nm, None, self.cn(t))
        init = ks[0]; s = self.strip(init)
        def mk():
            if s.get('kind') == 'InitListExpr' and t.kind not in ('prim', 'ptr', 'enum'): return self.ex(s)
            return self.ex(init)
        pre, x = self.with_pre(mk, ind)
        return pre + self.declline(p, self.decl(t, nm), nm, x, self.cn(t))

    def declline(self, p, declstr, name, init, ctype):
        """a local declaration; while hoisting (goto-dispatcher form) the declaration moves to function scope and the
        initialiser becomes an assignment at the original position"""
        if getattr(self, 'hoisting', None) is not None and self.hoist_depth == 0:
            if declstr + ';' not in self.hoisting: self.hoisting.append(declstr + ';')
            if init is None: return ''
            if init.startswith('{'): init = f"({ctype}){init}"
            return p + f"{name} = {init};\n"
        return p + declstr + (f" = {init}" if init is not None else '') + ';\n'

    def uniq_local(self, v):
        nm = v['name']
        # C forbids redeclaration clashes that C++ allows through nested scopes only in the same way; hoisted names stay unique
        self.local_names[v['id']] = nm
        return nm

    def decomp(self, v, ind):
        p = '  ' * ind; ks = kids(v)
        init = [x for x in ks if x.get('kind') != 'BindingDecl'][0]
        binds = [x for x in ks if x.get('kind') == 'BindingDecl']
        q = v['type'].get('desugaredQualType', v['type']['qualType']).strip()
        t = self.ct(v['type']); isref = q.endswith('&')
        bt = t.args[0] if isref else t
        if bt.kind not in ('pair', 'tuple'): raise Abort('structured binding over ' + bt.kind)
        fs = self.fields_of(bt); tv = self.tmp()
        for b, f in zip(binds, fs):
            self.bindings[b['id']] = f"({tv}->{f})" if isref else f"({tv}.{f})"
        if isref:
            pre, x = self.with_pre(lambda: self.addr(init), ind)
            return pre + self.declline(p, f"{self.cn(bt)}* {tv}", tv, x, self.cn(bt) + '*')
        pre, x = self.with_pre(lambda: self.ex(init), ind)
        return pre + self.declline(p, f"{self.cn(bt)} {tv}", tv, x, self.cn(bt))

    def cond(self, e, ind):
        return self.with_pre(lambda: self.ex(e), ind)

    def st_IfStmt(self, n, ind):
        p = '  ' * ind; ks = n.get('inner', [])
        ks = [c for c in ks if not (c.get('kind') or '').endswith('Attr')]
        out = ''; i = 0; wrap = False
        if n.get('hasInit'):
            out += p + '{\n' + self.st(ks[0], ind + 1); i = 1; wrap = True; ind += 1; p = '  ' * ind
        if n.get('hasVar'): raise Abort('if with condition variable')
        c = ks[i]; then = ks[i + 1]; els = ks[i + 2] if len(ks) > i + 2 else None
        if n.get('isConstexpr'):
            val = self.ix.eval_const(c)
            body = then if val else els
            out += self.block(body, ind) if body is not None else ''
        else:
            pre, x = self.cond(c, ind)
            out += pre + p + f"if ({x})\n" + self.block(then, ind)
            if els is not None and els.get('kind'): out += p + 'else\n' + self.block(els, ind)
        if wrap: out += '  ' * (ind - 1) + '}\n'
        return out

    def block(self, n, ind):
        if n.get('kind') == 'CompoundStmt': return self.st(n, ind)
        return '  ' * ind + '{\n' + self.st(n, ind + 1) + '  ' * ind + '}\n'

    def loop_ann(self, ind):
        key = (self.cur_name, self.loopn); self.loopn += 1
        txt = self.loop_contracts.get(key, '')
        if txt: self.used_loop_contracts.add(key)
        # (-DY_NO_LOOP_CONTRACTS: the fallback decision of check.py re-decides the function contract by complete unwinding)
        return (f'#if !defined(Y_NO_LOOP_CONTRACTS) && !defined(Y_NO_LOOP_CONTRACTS_{self.cur_name})\n' + ''.join('  ' * ind + l.strip() + '\n' for l in txt.strip().splitlines()) + '#endif\n') if txt else ''

    def st_ForStmt(self, n, ind):
        p = '  ' * ind; c = n['inner']
        init, condvar, cnd, inc, body = c[0], c[1], c[2], c[3], c[4]
        out = p + '{\n'; ind2 = ind + 1; p2 = '  ' * ind2
        if init.get('kind'): out += self.st(init, ind2)
        if condvar.get('kind'): raise Abort('for with condition variable')
        cx = ''
        if cnd.get('kind'):
            pre, cx = self.cond(cnd, ind2)
            if pre: raise Abort('for condition needs temporaries')
        ix = ''
        if inc.get('kind'):
            pre, ix = self.with_pre(lambda: self.ex(inc), ind2)
            if pre: raise Abort('for increment needs temporaries')
        ann = self.loop_ann(ind2)
        out += p2 + f"for (; {cx}; {ix})\n" + ann + self.block(body, ind2) + p + '}\n'
        return out

    def st_WhileStmt(self, n, ind):
        p = '  ' * ind; ks = kids(n)
        cnd, body = ks[0], ks[1]
        pre, cx = self.cond(cnd, ind + 1)
        ann = self.loop_ann(ind)
        if pre:   # condition needs hoisted temporaries: while(1){ pre; if(!c) break; body }
            return p + 'while (1)\n' + ann + p + '{\n' + pre + '  ' * (ind + 1) + f"if (!({cx})) break;\n" + self.block(body, ind + 1) + p + '}\n'
        return p + f"while ({cx})\n" + ann + self.block(body, ind)

    def st_CXXForRangeStmt(self, n, ind):
        p = '  ' * ind; c = n['inner']
        # children: init, range decl, begin decl, end decl, cond, inc, loop var decl, body
        init, rng, beg, end, cnd, inc, var, body = c
        out = p + '{\n'; i2 = ind + 1; p2 = '  ' * i2
        if init.get('kind'): out += self.st(init, i2)
        rv = kids(rng)[0]; rt = self.ct(rv['type'])
        if rt.kind == 'ref' and rt.args[0].kind == 'array':
            # range-for over std::array: printed as an index loop (begin = &a[0], end = &a[0] + N, ++it, *it  ==  i = 0, i != N, ++i, a[i])
            n = rt.args[0].n; bv = kids(beg)[0]; suffix = bv['name'].replace('__begin', '')
            idx = '__idx' + suffix; self.local_names[bv['id']] = f"(&({rv['name']})->a[{idx}])"
            out += self.st(rng, i2)
            out += p2 + f"uint64_t {idx} = 0;\n" + p2 + f"uint64_t __n{suffix} = Y_ARR_N({rv['name']}, {n});\n"
            ann = self.loop_ann(i2)
            out += p2 + f"for (; {idx} != __n{suffix}; ++{idx})\n" + ann + p2 + '{\n' + self.st(var, i2 + 1) + self.block(body, i2 + 1) + p2 + '}\n' + p + '}\n'
            return out
        out += self.st(rng, i2) + self.st(beg, i2) + self.st(end, i2)
        pre, cx = self.cond(cnd, i2)
        pre2, ix = self.with_pre(lambda: self.ex(inc), i2)
        if pre or pre2: raise Abort('range-for header needs temporaries')
        ann = self.loop_ann(i2)
        out += p2 + f"for (; {cx}; {ix})\n" + ann + p2 + '{\n' + self.st(var, i2 + 1) + self.block(body, i2 + 1) + p2 + '}\n' + p + '}\n'
        return out

    def st_CXXTryStmt(self, n, ind):
        return self.st(kids(n)[0], ind)     # handler dropped (DESIGN 3.1-2)

    def st_SwitchStmt(self, n, ind):
        raise Abort('switch statement')

    # ---------------------------------------------------------------- lambdas
    def make_lambda(self, lam, varname):
        """closure -> static function taking captured variables by pointer (reference captures) or value"""
        rec = [c for c in lam['inner'] if c.get('kind') == 'CXXRecordDecl'][0]
        call = [c for c in rec['inner'] if c.get('kind') == 'CXXMethodDecl' and c.get('name') == 'operator()'][0]
        fields = [c for c in rec['inner'] if c.get('kind') == 'FieldDecl']
        inits = [c for c in lam['inner'] if c.get('kind') not in ('CXXRecordDecl', 'CompoundStmt')]
        caps = []
        for f, i in zip(fields, inits):
            s = self.strip(i)
            if s.get('kind') == 'CXXThisExpr': caps.append(('self', 'self', self.cur_self_type + '*', False)); continue
            if s.get('kind') != 'DeclRefExpr': raise Abort('lambda capture initialiser ' + str(s.get('kind')))
            rid = s['referencedDecl']['id']; byref = f['type']['qualType'].strip().endswith('&')
            d = self.ix.by_id[rid]; t = self.ct(d['type'])
            nm = self.local_names.get(rid, d['name'])
            if self.is_ref_decl(rid):   # variable itself is a reference (pointer in C): pass the pointer
                caps.append((nm, nm, self.cn(t), False))
            elif byref:
                caps.append((nm, f"&{nm}", self.cn(t) + '*', True))
            else:
                caps.append((nm, nm, self.cn(t), False))
        fname = f"{self.cur_name}_lambda_{varname}"
        self.lambda_fns.append((fname, call, caps, self.cur_name))
        return (fname, caps, call)

    def call_lambda(self, vid, args):
        fname, caps, call = self.lambda_vars[vid]
        params = [p for p in call.get('inner', []) if p.get('kind') == 'ParmVarDecl']
        al = [c[1] for c in caps] + [self.arg(a, p) for a, p in zip(args, params)]
        return f"{fname}({', '.join(al)})"

    # ---------------------------------------------------------------- functions
    def signature(self, cid, n, cname):
        rec = self.ix.parent.get(n['id'])
        params = []
        if n['kind'] == 'CXXMethodDecl' and n.get('storageClass') != 'static' and cid not in self.ix.static_canon and rec is not None:
            params.append(f"{rec['name']}* self")
        for p in n.get('inner', []):
            if p.get('kind') == 'ParmVarDecl':
                t = self.ct(p['type'])
                params.append(self.decl(t, p.get('name') or f"y_unnamed{len(params)}"))
        if n['kind'] == 'CXXConstructorDecl':
            rt = rec['name']
        else:
            rts = self.ret_type(n)
            rt = self.cn(self.ty.parse(rts))
        self.sigs = getattr(self, 'sigs', {}); self.sigs[cname] = (rt, list(params))
        return f"{rt} {cname}({', '.join(params) if params else 'void'})"

    def reset_fn(self, cname, n):
        self.cur_name = cname; self.loopn = 0; self.retn = 0; self.hoisting = None; self.hoist_depth = 0; self.dispatch_labels = {}
        self.bindings = getattr(self, 'bindings', {}); self.labels = {}
        self.local_names = getattr(self, 'local_names', {})
        self.lambda_vars = getattr(self, 'lambda_vars', {})
        self.pre = []
        rec = self.ix.parent.get(n['id'])
        self.cur_self_type = rec['name'] if rec is not None else None

    def emit_function(self, cid):
        n = self.ix.defn[cid]; cname = self.names[cid]
        self.reset_fn(cname, n)
        sig = self.signature(cid, n, cname)
        if cname in self.opaque:
            return sig, None
        if n['kind'] == 'CXXConstructorDecl':
            rec = self.ix.parent[n['id']]
            self.cur_ret = rec['name']
            self.need_dinit.add(rec['name'])
            body = '{\n  ' + rec['name'] + ' y_obj = ' + rec['name'] + '_dinit();\n  ' + rec['name'] + '* self = &y_obj;\n'
            for ci in [c for c in n.get('inner', []) if c.get('kind') == 'CXXCtorInitializer']:
                if 'anyInit' not in ci: raise Abort('ctor initializer form')
                fld = ci['anyInit']['name']
                pre, x = self.with_pre(lambda: self.ex(kids(ci)[0]), 1)
                if self.strip(kids(ci)[0]).get('kind') == 'CXXDefaultInitExpr' or kids(ci)[0].get('kind') == 'CXXDefaultInitExpr': continue
                body += pre + f"  self->{fld} = {x};\n"
            cs = [c for c in n['inner'] if c.get('kind') == 'CompoundStmt'][0]
            self.cur_ret = 'void'
            body += self.st(cs, 1)
            body += '  return y_obj;\n}\n'
            return sig, body
        self.cur_ret = self.ret_type(n)
        cs = [c for c in n['inner'] if c.get('kind') == 'CompoundStmt']
        if not cs: raise Abort('no body: ' + cname)
        if any(c.get('kind') == 'LabelStmt' for c in kids(cs[0])):
            return sig, self.dispatcher_body(cs[0], cname)
        self.hoisting = None; self.hoist_depth = 0
        body = self.st(cs[0], 0)
        self.loop_counts = getattr(self, 'loop_counts', {}); self.loop_counts[cname] = self.loopn
        return sig, body

    def dispatcher_body(self, cs, cname):
        """functions whose top-level labels are targets of (backward) gotos - the retry loops of put/get/remove/scan/... - are
        printed as `for(;;) switch(y_pc)`: every top-level label becomes a case, every goto to it `y_pc = k; goto y_dispatch_next`.
        Top-level locals are hoisted to function scope (their initialisers become assignments in place), so that values
        survive dispatcher iterations exactly as they survive a goto. CBMC can attach a loop contract to this loop."""
        flat = []
        def flatten(st):
            if st.get('kind') == 'LabelStmt':
                flat.append(('label', st))
                for c in kids(st): flatten(c)
            else: flat.append(('stmt', st))
        for c in kids(cs): flatten(c)
        self.dispatch_labels = {}
        k = 0
        for kind, st in flat:
            if kind == 'label':
                k += 1; self.dispatch_labels[st['name']] = k; self.labels[st['declId']] = st['name']
        self.hoisting = []; self.hoist_depth = 0
        body = ''
        for kind, st in flat:
            if kind == 'label':
                body += f"    case {self.dispatch_labels[st['name']]}: ;   /* {st['name']}: */\n"
            else:
                body += self.st(st, 3)
        hoisted = ''.join('  ' + h + '\n' for h in self.hoisting)
        self.hoisting_names = [re.sub(r'\[.*', '', h.rstrip(';').strip()).split()[-1].lstrip('*') for h in self.hoisting]
        self.hoisting = None
        key = (self.cur_name, 'dispatch')
        ann = self.loop_contracts.get(key, '')
        if ann: self.used_loop_contracts.add(key)
        # '@anchor cond :: var :: expr' lines: a checked re-statement of an invariant equality at the top of the loop body,
        # `if (cond) { assert(var == expr); var = expr; }` - a no-op whenever the assertion holds (and the assertion is an
        # obligation); it hands symex the constant pointer the invariant only states as an assumption
        anchors = ''
        keep = []
        for l in (ann.strip().splitlines() if ann else []):
            if l.strip().startswith('@anchor'):
                c, v, e = [x.strip() for x in l.strip()[len('@anchor'):].split('::')]
                anchors += f'    if ({c}) {{ __CPROVER_assert({v} == ({e}), "loop invariant anchor {v}"); {v} = ({e}); }}\n'
            else: keep.append(l)
        ann = ''.join('  ' + l.strip() + '\n' for l in keep) if keep else ''
        end = '    return;\n' if self.cur_ret.strip() == 'void' else '    __CPROVER_assert(0, "control reaches the end of a non-void function"); __CPROVER_assume(0);\n'
        if getattr(self, 'loop_modes', {}).get(key) == 'own':
            # loop contract applied by this tool instead of dfcc (see ystubgen.gen_ownloop): base check, havoc of the hoisted
            # locals and of EVERY target of the function's own assigns clause, assume invariant, one body pass, step check.
            # dfcc still enforces the function's assigns clause on every write of the body, so havocking all of it is a sound frame.
            names = []
            for h in self.hoisting_names: names.append(h)
            pnames = [re.split(r'[ *]', q.replace('[', ' ['))[-1] for q in self.sigs[self.cur_name][1]] if self.cur_name in getattr(self, 'sigs', {}) else []
            self.own_loops = getattr(self, 'own_loops', {})
            tag = f'{self.cur_name}__dispatch'
            self.own_loops[tag] = {'fn': self.cur_name, 'hoisted': names + ['y_pc'], 'clauses': '\n'.join(keep), 'body': body, 'params': pnames}
            out = '{\n' + hoisted + f'  int y_pc = 0;\n  Y_OWNLOOP_HEAD_{tag}\n  {{\n' + anchors + '    switch (y_pc)\n    {\n    case 0: ;\n' + body + '    }\n' + end + f'    y_dispatch_next: Y_OWNLOOP_STEP_{tag}\n  }}\n}}\n'
            self.dispatch_labels = {}
            return out
        out = '{\n' + hoisted + '  int y_pc = 0;\n  for (;;)\n' + ann + '  {\n' + anchors + '    switch (y_pc)\n    {\n    case 0: ;\n' + body + '    }\n' + end + '    y_dispatch_next: ;\n  }\n}\n'
        self.dispatch_labels = {}
        return out

    def emit_lambda(self, fname, call, caps, owner):
        self.cur_name = fname; self.loopn = 0; self.retn = 0; self.labels = {}; self.pre = []
        params = [f"{c[2]} {c[0]}" for c in caps]
        for p in call.get('inner', []):
            if p.get('kind') == 'ParmVarDecl': params.append(self.decl(self.ct(p['type']), p['name']))
        self.cur_ret = self.ret_type(call)
        cs = [c for c in call['inner'] if c.get('kind') == 'CompoundStmt'][0]
        if self.cur_ret.strip() == 'auto':
            def find_ret(n):
                if isinstance(n, dict):
                    if n.get('kind') == 'ReturnStmt' and kids(n): return kids(n)[0]['type'].get('desugaredQualType', kids(n)[0]['type']['qualType'])
                    if n.get('kind') == 'LambdaExpr': return None
                    for c in n.get('inner', []):
                        r = find_ret(c)
                        if r: return r
                return None
            self.cur_ret = find_ret(cs) or 'void'
        rt = self.cn(self.ty.parse(self.cur_ret))
        # inside the body, by-reference captures are pointers: temporarily mark them
        saved = dict(self.local_names); marks = []
        body = self.with_capture_refs(caps, lambda: self.st(cs, 0))
        self.local_names = saved
        return f"static {rt} {fname}({', '.join(params) if params else 'void'})", body

    def with_capture_refs(self, caps, f):
        old = self.is_ref_decl
        refnames = {c[0] for c in caps if c[3]}
        def patched(did):
            d = self.ix.by_id.get(did)
            if d is not None and d.get('name') in refnames and d.get('kind') in ('VarDecl', 'ParmVarDecl'): return True
            return old(did)
        self.is_ref_decl = patched
        try: return f()
        finally: self.is_ref_decl = old
