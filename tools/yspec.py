#!/usr/bin/env python3
"""developer helper: run all (or selected) jobs of one spec file and print a summary.
usage: yspec.py <spec> [job-name-regex] [--keep]"""
import sys, os, re, json, shutil, tempfile, time
from concurrent.futures import ThreadPoolExecutor
import yrun, yast

def main():
    spec_path = sys.argv[1]; flt = sys.argv[2] if len(sys.argv) > 2 and not sys.argv[2].startswith('--') else '.*'
    keep = '--keep' in sys.argv
    outdir = tempfile.mkdtemp(prefix='yspec-', dir=(os.makedirs(yrun.WORK, exist_ok=True) or yrun.WORK))
    try:
        ast = yrun.prepare_ast()
        t0 = time.time()
        cpath, spec, unit = yrun.emit_unit(ast, spec_path, outdir)
        print(f'emitted {cpath} ({len(unit.functions)} functions) in {time.time() - t0:.1f}s')
        jobs = [j for j in spec.jobs if re.search(flt, j['name'])]
        with ThreadPoolExecutor(max_workers=int(os.environ.get('Y_JOBS', '14'))) as ex:
            results = list(ex.map(lambda j: yrun.run_job(cpath, j, outdir), jobs))
        bad = 0
        for r in results:
            line = f"{r['job']:55s} {r['status']:8s} {r.get('n_ok', 0)}/{r.get('n', 0)} obligations  {r['seconds']:.1f}s  probes_ok={r.get('probes_ok')}"
            print(line)
            if r['status'] != 'ok':
                bad += 1
                print('    ', r.get('detail', '')[:3000])
                for f in r.get('failed', [])[:12]:
                    print('     FAILED', f['name'], '|', f['desc'][:160], '| line', f['line'], f['function'])
                if '--trace' in sys.argv:
                    for f in r.get('failed', [])[:2]:
                        for s in f['trace'][-60:]: print('        ', s['function'], s['lhs'], '=', s['value'])
        print(f'{len(results) - bad}/{len(results)} jobs ok')
        if keep: print('kept', outdir)
    except yast.Abort as a:
        print('EXTRACTION MISMATCH:', a); sys.exit(2)
    finally:
        if not keep: shutil.rmtree(outdir, ignore_errors=True)

if __name__ == '__main__':
    main()
