#!/usr/bin/env python3
"""ystubgen: compile a callee's CBMC code contract into a C stub body (job attribute `stub=f,g`).

Why not --replace-call-with-contract: dfcc havocs assigns targets through a pointer read back from its write-set arrays; symex
loses that pointer's value set and every havoc becomes a case split over all dynamic objects (measured here: ~4 s and hundreds
of MB per target in node-level units, out of memory at 24-40 GB for border_split). The stub below has the same meaning as the
replacement (assert requires; havoc assigns; assume ensures) but assigns through the callee's own lvalues:

    RET f(PARAMS) {
      assert(R_k) ; assume(R_k)              is_fresh(p,n) -> readable/writable n bytes and a different object than the earlier ones
      T_j old_j = e_j                          one snapshot per __CPROVER_old(e_j)
      t = nondet  /  havoc_object(p)           per assigns target (conditional targets under their condition)
      ret = nondet; [ret = E  when an ensures conjunct reads `__CPROVER_return_value == E`: keeps pointer provenance]
      assume(E_k)                              is_fresh(q,n) -> q = fresh allocation of n bytes
      return ret }

The stub body is ordinary code for dfcc: the caller's assigns clause is still enforced on the stub's assignments (so the callee's
frame is checked against the caller's exactly as the inclusion check did). The contract text is macro-expanded with the job's
own -D set by the C preprocessor first (contracts use #ifdef variants and macros that hide __CPROVER_old)."""
import re, subprocess, os, json
from yast import Abort

TOOLS = os.path.dirname(os.path.abspath(__file__))

def balanced(s, i):
    """s[i] == '(' -> index just after the matching ')'"""
    d = 0
    for k in range(i, len(s)):
        if s[k] == '(': d += 1
        elif s[k] == ')':
            d -= 1
            if d == 0: return k + 1
    raise Abort('unbalanced parentheses in contract text')

def split_top(s, sep):
    out = []; d = 0; cur = ''
    for ch in s:
        if ch in '([{': d += 1
        elif ch in ')]}': d -= 1
        if ch == sep and d == 0: out.append(cur); cur = ''
        else: cur += ch
    out.append(cur)
    return [x.strip() for x in out if x.strip()]

def split_top_str(s, sep):
    """split at a multi-character separator at nesting depth 0"""
    out = []; d = 0; cur = ''; i = 0
    while i < len(s):
        ch = s[i]
        if ch in '([{': d += 1
        elif ch in ')]}': d -= 1
        if d == 0 and s.startswith(sep, i): out.append(cur); cur = ''; i += len(sep); continue
        cur += ch; i += 1
    out.append(cur)
    return [x.strip() for x in out]

def clauses(text):
    res = []
    for m in re.finditer(r'__CPROVER_(requires|ensures|assigns)\s*\(', text):
        j = balanced(text, m.end() - 1)
        res.append((m.group(1), text[m.end():j - 1].strip()))
    return res

def replace_calls(text, name, fn):
    """replace every `name(args)` by fn(list_of_args)"""
    out = ''; i = 0
    pat = re.compile(r'\b' + re.escape(name) + r'\s*\(')
    while True:
        m = pat.search(text, i)
        if not m: out += text[i:]; break
        j = balanced(text, m.end() - 1)
        out += text[i:m.start()] + fn(split_top(text[m.end():j - 1], ','))
        i = j
    return out

def expand_contracts(cpath, defs, info, names, tag=''):
    """macro-expand the contract text of `names` with the job's defines"""
    src = open(cpath).read()
    for n in names:
        src += f"\nY_STUBMARK_BEGIN_{n}\n{info[n]['contract']}\nY_STUBMARK_END_{n}\n"
    tmp = cpath + '.' + tag + '.stubexp.c'
    open(tmp, 'w').write(src)
    cmd = ['gcc', '-E', '-P', '-x', 'c', '-I', TOOLS] + defs + [tmp]
    p = subprocess.run(cmd, capture_output=True, text=True)
    os.remove(tmp)
    if p.returncode != 0: raise Abort('preprocessing contracts for stub generation failed: ' + p.stderr[-800:])
    out = {}
    for n in names:
        m = re.search(r'Y_STUBMARK_BEGIN_' + re.escape(n) + r'\b(.*?)Y_STUBMARK_END_' + re.escape(n) + r'\b', p.stdout, re.S)
        if not m: raise Abort('stub marker lost for ' + n)
        out[n] = m.group(1)
    return out

def gen_stub(name, sig, ret, text):
    cl = clauses(text)
    if not cl: raise Abort(f'stub={name}: no contract clauses')
    body = []
    void = ret.strip() == 'void'
    body.append('  void* y_sf_seen[16]; unsigned y_sf_n = 0;')
    k = 0
    for kind, c in cl:
        if kind != 'requires': continue
        k += 1
        c2 = replace_calls(c, '__CPROVER_is_fresh', lambda a: f'y_sf_chk(y_sf_seen, &y_sf_n, (void*)({a[0]}), (uint64_t)({a[1]}))')
        body.append(f'  {{ _Bool y_r = ({c2}); __CPROVER_assert(y_r, "{name}.precondition.{k} (stub of the contract at the call site)"); __CPROVER_assume(y_r); }}')
    # old() snapshots (from ensures)
    olds = []
    def old_sub(a):
        e = ', '.join(a)
        if e not in olds: olds.append(e)
        return f'y_old_{olds.index(e)}'
    ens = []
    for kind, c in cl:
        if kind == 'ensures': ens.append(replace_calls(c, '__CPROVER_old', old_sub))
    for i, e in enumerate(olds):
        body.append(f'  __typeof__({e}) y_old_{i} = ({e});')
    # havoc: target addresses (and conditions) are evaluated in the pre-state, as dfcc does, then the targets are havocked
    targets = []; phase2 = []; k = 0
    for kind, c in cl:
        if kind != 'assigns' or not c: continue
        for grp in split_top(c, ';'):
            cond = None
            parts = split_top_str(grp, ':')
            # a top-level ':' that is not part of '?:' separates the condition
            if len(parts) > 1 and '?' not in parts[0]:
                cond = parts[0]; grp = ':'.join(parts[1:])
            for t in split_top(grp, ','):
                k += 1
                m = re.match(r'__CPROVER_object_whole\s*\((.*)\)$', t, re.S)
                if cond: body.append(f'  _Bool y_tc_{k} = ({cond});')
                pre = f'if (y_tc_{k}) ' if cond else ''
                if m:
                    body.append(f'  void* y_tp_{k} = (void*)({m.group(1)});')
                    phase2.append(f'  {pre}__CPROVER_havoc_object(y_tp_{k});')
                elif t.startswith('__CPROVER_'): raise Abort(f'stub={name}: unsupported assigns target {t}')
                else:
                    targets.append(t)
                    body.append(f'  __typeof__({t})* y_tp_{k} = ' + (f'y_tc_{k} ? &({t}) : 0;' if cond else f'&({t});'))
                    phase2.append(f'  {pre}{{ __typeof__({t}) y_h; *y_tp_{k} = y_h; }}')
    body += phase2
    if not void:
        body.append(f'  {ret} y_ret;')
        for e in ens:
            for conj in split_top_str(e, '&&'):
                m = re.match(r'^\(*\s*__CPROVER_return_value\s*==\s*(.*)$', conj.strip(), re.S)
                if m and '__CPROVER_return_value' not in m.group(1) and '__CPROVER_is_fresh' not in m.group(1) and conj.count('(') == conj.count(')'):
                    body.append(f'  y_ret = ({ret})({m.group(1)});'); break
    norm = lambda t: re.sub(r'\s+', '', t)
    def strip_par(t):
        t = t.strip()
        while t.startswith('(') and balanced(t, 0) == len(t): t = t[1:-1].strip()
        return t
    strip_all = lambda t: t.replace('(', '').replace(')', '')
    tnorm = {norm(strip_par(t)) for t in targets}; tnorm_all = {norm(strip_all(t)) for t in targets}
    # fresh objects promised by the ensures clauses are allocated first (their pointers are then precise for the anchors below)
    ens = [e.replace('__CPROVER_return_value', 'y_ret') for e in ens]
    for e in ens:
        replace_calls(e, '__CPROVER_is_fresh', lambda a: (body.append(f'  y_sf_new((void**)&({a[0]}), (uint64_t)({a[1]}));'), '')[1])
    for e in ens:
        e2 = replace_calls(e, '__CPROVER_is_fresh', lambda a: '1')
        # anchoring: a top-level conjunct `T == E` whose side T is one of the havocked targets is ALSO performed as the
        # assignment T = E before the assumption (it removes no state that satisfies the clause; it keeps the value set of a
        # pointer-typed T precise for symex, which an assumed equality does not)
        for conj in split_top_str(e2, '&&'):
            c = strip_par(conj)
            parts = split_top_str(c, '==')
            if len(parts) == 2 and 'y_sf_new' not in c and '!=' not in parts[0][-1:] :
                a, b = strip_par(parts[0]), strip_par(parts[1])
                if a.endswith(('!', '<', '>', '=')) or b.startswith('='): continue
                unold = lambda t: re.sub(r'y_old_(\d+)', lambda m: '(' + olds[int(m.group(1))] + ')' if int(m.group(1)) < len(olds) else m.group(0), t)
                # a target written with pre-state sub-expressions (`arr[old(n)]`) is the target `arr[n]` evaluated in the pre-state
                if norm(a) in tnorm or norm(strip_all(unold(a))) in tnorm_all: body.append(f'  ({a}) = ({b});')
                elif norm(b) in tnorm or norm(strip_all(unold(b))) in tnorm_all: body.append(f'  ({b}) = ({a});')
        body.append(f'  __CPROVER_assume({e2});')
    if not void: body.append('  return y_ret;')
    return f'/* stub compiled from the contract of {name} (ystubgen) */\n{sig}\n{{\n' + '\n'.join(body) + '\n}\n'

HELPERS = r'''
/* ---- ystubgen helpers ---- */
static inline _Bool y_sf_chk(void** seen, unsigned* n, void* p, uint64_t sz)
{
  if (!__CPROVER_rw_ok(p, sz)) return 0;
#define Y_SF_SEEN(i) if ((i) < *n && __CPROVER_same_object(seen[i], p)) return 0;
  Y_SF_SEEN(0) Y_SF_SEEN(1) Y_SF_SEEN(2) Y_SF_SEEN(3) Y_SF_SEEN(4) Y_SF_SEEN(5) Y_SF_SEEN(6) Y_SF_SEEN(7) Y_SF_SEEN(8) Y_SF_SEEN(9) Y_SF_SEEN(10) Y_SF_SEEN(11) Y_SF_SEEN(12) Y_SF_SEEN(13) Y_SF_SEEN(14) Y_SF_SEEN(15)
  __CPROVER_assert(*n < 16, "ystubgen: at most 16 is_fresh terms per contract");
  seen[*n] = p; ++*n;
  return 1;
}
static inline _Bool y_sf_new(void** pp, uint64_t sz)
{
  void* p = malloc(sz);
  __CPROVER_assume(p != 0 && (((uint64_t)p) & (3UL << 62)) == 0);
  *pp = p;
  return 1;
}
'''

def havoc_stmts(assigns_clauses, who):
    out = []
    for c in assigns_clauses:
        if not c: continue
        for grp in split_top(c, ';'):
            cond = None
            parts = split_top_str(grp, ':')
            if len(parts) > 1 and '?' not in parts[0]:
                cond = parts[0]; grp = ':'.join(parts[1:])
            for t in split_top(grp, ','):
                m = re.match(r'__CPROVER_object_whole\s*\((.*)\)$', t, re.S)
                if m: st = f'__CPROVER_havoc_object((void*)({m.group(1)}));'
                elif t.startswith('__CPROVER_'): raise Abort(f'{who}: unsupported assigns target {t}')
                else: st = f'{{ __typeof__({t}) y_h; ({t}) = y_h; }}'
                out.append((f'if ({cond}) ' if cond else '') + st)
    return out

def gen_ownloop(tag, L, loop_text, fcontract_text):
    """macro bodies for Y_OWNLOOP_HEAD_<tag> / Y_OWNLOOP_STEP_<tag> (see y2c.dispatcher_body)"""
    invs = []
    for m in re.finditer(r'__CPROVER_loop_invariant\s*\(', loop_text):
        j = balanced(loop_text, m.end() - 1); invs.append(loop_text[m.end():j - 1].strip())
    if not invs: raise Abort(f'own loop {tag}: no loop invariant')
    fassigns = [c for k, c in clauses(fcontract_text) if k == 'assigns']
    if not fassigns: raise Abort(f'own loop {tag}: the function has no assigns clause to take the frame from')
    # parameters must not be assigned in the loop body (they are not havocked)
    for p in L['params']:
        if re.search(r'(?<![\w.>])' + re.escape(p) + r'\s*(=[^=]|\+\+|--|[-+*/|&^]=)', L['body']) or re.search(r'(\+\+|--)\s*' + re.escape(p) + r'\b', L['body']) or re.search(r'&\(?\s*' + re.escape(p) + r'\b(?!\s*(\.|->|\[))', L['body']):
            raise Abort(f'own loop {tag}: parameter {p} is assigned or has its address taken in the loop body')
    snaps = []
    def le_sub(a):
        e = ', '.join(a)
        if e not in snaps: snaps.append(e)
        return f'y_le_{snaps.index(e)}'
    invs2 = [replace_calls(i, '__CPROVER_loop_entry', le_sub) for i in invs]
    inv_all = ' && '.join('(' + i + ')' for i in invs2)
    head = []
    base = ' && '.join('(' + replace_calls(i, '__CPROVER_loop_entry', lambda a: '(' + ', '.join(a) + ')') + ')' for i in invs)
    head.append(f'__CPROVER_assert({base}, "{L["fn"]}.loop_invariant_base.dispatch (own loop contract)");')
    for i, e in enumerate(snaps): head.append(f'__typeof__({e}) y_le_{i} = ({e});')
    for h in L['hoisted']: head.append(f'{{ __typeof__({h}) y_h; {h} = y_h; }}')
    head += havoc_stmts(fassigns, 'own loop ' + tag)
    head.append(f'__CPROVER_assume({inv_all});')
    step = f'__CPROVER_assert({inv_all}, "{L["fn"]}.loop_invariant_step.dispatch (own loop contract)"); __CPROVER_assume(0);'
    one = lambda t: ' '.join(t.split())
    return f'#define Y_OWNLOOP_HEAD_{tag} ' + one(' '.join(head)) + '\n' + f'#define Y_OWNLOOP_STEP_{tag} ' + one(step) + '\n'

def make_job_source(cpath, job, outdir):
    """returns (path of the C file to compile for this job, extra -D list)"""
    info = json.load(open(cpath + '.stubs.json')) if os.path.exists(cpath + '.stubs.json') else {}
    loops = info.get('__loops__', {})
    names = [x for x in job.get('stub', '').split(',') if x]
    names = [n for n in names if n in info]     # callees absent from this unit are skipped (as for replace=)
    if not names and not loops: return cpath, []
    defs = ['-D' + d for d in job.get('defs', '').split(',') if d] + ['-DY_STUB_' + n for n in names]
    # neutral definitions so that the unit preprocesses while the real ones are being generated
    pre_defs = [f'-DY_OWNLOOP_HEAD_{t}=' for t in loops] + [f'-DY_OWNLOOP_STEP_{t}=' for t in loops]
    ex_info = dict((n, {'contract': info[n]['contract']}) for n in names)
    for t, L in loops.items():
        ex_info['__loop__' + t] = {'contract': L['clauses']}
        ex_info['__fc__' + t] = {'contract': L['fcontract']}
    exp = expand_contracts(cpath, defs + pre_defs, ex_info, list(ex_info), job['name'])
    head = ''
    for t, L in loops.items():
        head += gen_ownloop(t, L, exp['__loop__' + t], exp['__fc__' + t])
    out = head + open(cpath).read() + (HELPERS if names else '')
    for n in names:
        out += gen_stub(n, info[n]['sig'], info[n]['ret'], exp[n])
    jpath = os.path.join(outdir, os.path.basename(cpath)[:-2] + '.' + job['name'] + '.c')
    open(jpath, 'w').write(out)
    return jpath, ['-DY_STUB_' + n for n in names]
