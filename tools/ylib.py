#!/usr/bin/env python3
"""Fixed table: library callee -> C stub expression (DESIGN.md Appendix B). Unknown callee => Abort."""
import re
from yast import Abort, kids

LIB = {}
def lib(*keys):
    def deco(f):
        for k in keys: LIB[k] = f
        return f
    return deco

def loc_of(em, obj):
    o, arrow = obj
    return em.ex(o) if arrow else em.addr(o)

# ---------------------------------------------------------------- std::atomic<T>
def asuf(em, ot): return em.atomic_suffix(ot.args[0])

@lib(('atomic', 'load'))
def _(em, obj, ot, args, e): return f"Y_LOAD_{asuf(em, ot)}({loc_of(em, obj)})"
@lib(('atomic', 'store'))
def _(em, obj, ot, args, e): return f"Y_STORE_{asuf(em, ot)}({loc_of(em, obj)}, {em.ex(args[0])})"
@lib(('atomic', 'compare_exchange_weak'), ('atomic', 'compare_exchange_strong'))
def _(em, obj, ot, args, e): return f"Y_CAS_{asuf(em, ot)}({loc_of(em, obj)}, {em.addr(args[0])}, {em.ex(args[1])})"
@lib(('atomic', 'fetch_add'))
def _(em, obj, ot, args, e): return f"Y_FADD_{asuf(em, ot)}({loc_of(em, obj)}, {em.ex(args[0])})"
@lib(('atomic', 'fetch_sub'))
def _(em, obj, ot, args, e): return f"Y_FSUB_{asuf(em, ot)}({loc_of(em, obj)}, {em.ex(args[0])})"
@lib(('atomic', 'operator-='))
def _(em, obj, ot, args, e): return f"Y_FSUB_{asuf(em, ot)}({loc_of(em, obj)}, {em.ex(args[0])})"
@lib(('atomic', 'operator+='))
def _(em, obj, ot, args, e): return f"Y_FADD_{asuf(em, ot)}({loc_of(em, obj)}, {em.ex(args[0])})"
@lib(('atomic', 'operator='))
def _(em, obj, ot, args, e): return f"Y_STORE_{asuf(em, ot)}({loc_of(em, obj)}, {em.ex(args[0])})"
def atomic_conv(em, obj, ot, args, e): return f"Y_LOAD_{asuf(em, ot)}({loc_of(em, obj)})"

# ---------------------------------------------------------------- std::array<T,N>
@lib(('array', 'at'), ('array', 'operator[]'))
def _(em, obj, ot, args, e): return f"(*Y_AT({loc_of(em, obj)}, {em.ex(args[0])}, {ot.n}))"
@lib(('array', 'size'))
def _(em, obj, ot, args, e): return f"((uint64_t){ot.n}UL)"
@lib(('array', 'begin'))
def _(em, obj, ot, args, e): return f"(&({loc_of(em, obj)})->a[0])"
@lib(('array', 'end'))
def _(em, obj, ot, args, e): return f"Y_ARR_END({loc_of(em, obj)}, {ot.n})"
@lib(('array', 'fill'))
def _(em, obj, ot, args, e):
    return f"Y_FILL({loc_of(em, obj)}, {ot.n}, {em.ex(args[0])})"
@lib(('array', 'data'))
def _(em, obj, ot, args, e): return f"(&({loc_of(em, obj)})->a[0])"

# ---------------------------------------------------------------- bitset<15> (as uint16_t)
@lib(('prim', 'reset'))
def _(em, obj, ot, args, e): return f"(*{loc_of(em, obj)} = 0)"
@lib(('prim', 'set'))
def _(em, obj, ot, args, e): return f"Y_BITSET_SET({loc_of(em, obj)}, {em.ex(args[0])})"
@lib(('prim', 'test'))
def _(em, obj, ot, args, e): return f"Y_BITSET_TEST({loc_of(em, obj)}, {em.ex(args[0])})"

# ---------------------------------------------------------------- free functions
@lib(('free', 'memcmp'))
def _(em, obj, ot, args, e): return f"Y_MEMCMP({', '.join(em.ex(a) for a in args)})"
@lib(('free', 'memcpy'))
def _(em, obj, ot, args, e): return f"Y_MEMCPY({', '.join(em.ex(a) for a in args)})"
@lib(('free', 'memmove'))
def _(em, obj, ot, args, e): return f"Y_MEMMOVE({', '.join(em.ex(a) for a in args)})"
@lib(('free', '_mm_pause'))
def _(em, obj, ot, args, e): return "Y_PAUSE()"
@lib(('free', 'sleep_for'))
def _(em, obj, ot, args, e): return "Y_PAUSE()"
@lib(('free', 'operator new'))
def _(em, obj, ot, args, e):
    if len(args) != 2: raise Abort('operator new arity')
    return f"Y_OP_NEW({em.ex(args[0])}, {em.ex(args[1])})"
@lib(('free', 'operator delete'))
def _(em, obj, ot, args, e):
    if len(args) != 3: raise Abort('operator delete arity')
    return f"Y_OP_DELETE({', '.join(em.ex(a) for a in args)})"
@lib(('free', 'get'))
def _(em, obj, ot, args, e):
    fn = kids(e)[0]
    while fn.get('kind') in ('ImplicitCastExpr', 'ParenExpr'): fn = kids(fn)[0]
    m = re.search(r'tuple_element(?:_t)?<(\d+)', fn['type']['qualType'])
    if not m: raise Abort('std::get index not recoverable: ' + fn['type']['qualType'][:80])
    i = int(m.group(1))
    at = em.ct(args[0]['type'])
    if at.kind == 'ref': at = at.args[0]
    if at.kind not in ('pair', 'tuple'): raise Abort('std::get on ' + at.kind)
    f = em.fields_of(at)[i]
    return f"({em.ex(args[0])}.{f})"
@lib(('free', 'make_pair'), ('free', 'make_tuple'))
def _(em, obj, ot, args, e):
    t = em.ct(e['type'])
    return f"(({em.cn(t)}){{{', '.join(em.ex(a) for a in args)}}})"
@lib(('free', 'min'))
def _(em, obj, ot, args, e):
    t = em.ct(e['type'])
    if t.kind == 'ref': t = t.args[0]
    c = em.cn(t)
    if len(args) == 2: return f"Y_MIN({c}, {em.ex(args[0])}, {em.ex(args[1])})"
    if len(args) == 1:   # initializer_list form
        s = em.strip(args[0])
        while s.get('kind') in ('CXXStdInitializerListExpr', 'MaterializeTemporaryExpr', 'ImplicitCastExpr'): s = kids(s)[0]
        if s.get('kind') != 'InitListExpr': raise Abort('std::min argument form')
        xs = [em.ex(x) for x in kids(s)]
        r = f"(({c}){xs[0]})"
        for x in xs[1:]: r = f"Y_MIN({c}, {r}, (({c}){x}))"
        return r
    raise Abort('std::min arity')
@lib(('free', 'hardware_concurrency'))
def _(em, obj, ot, args, e): return "Y_HW_CONCURRENCY()"
@lib(('free', 'move'), ('free', 'forward'))
def _(em, obj, ot, args, e): return em.ex(args[0])

# ---------------------------------------------------------------- string_view
@lib(('sv', 'size'), ('sv', 'length'))
def _(em, obj, ot, args, e): return f"({loc_of(em, obj)})->size"
@lib(('sv', 'data'))
def _(em, obj, ot, args, e): return f"({loc_of(em, obj)})->data"
@lib(('sv', 'empty'))
def _(em, obj, ot, args, e): return f"(({loc_of(em, obj)})->size == 0)"
@lib(('sv', 'remove_prefix'))
def _(em, obj, ot, args, e): return f"y_sv_remove_prefix({loc_of(em, obj)}, {em.ex(args[0])})"
@lib(('sv', 'compare'))
def _(em, obj, ot, args, e): return f"y_sv_compare({loc_of(em, obj)}, {em.ex(args[0])})"
@lib(('sv', 'operator='))
def _(em, obj, ot, args, e): return f"(*{loc_of(em, obj)} = {em.ex(args[0])})"

# ---------------------------------------------------------------- std::string
@lib(('string', 'size'))
def _(em, obj, ot, args, e): return f"y_string_size({loc_of(em, obj)})"
@lib(('string', 'data'))
def _(em, obj, ot, args, e): return f"y_string_data({loc_of(em, obj)})"
@lib(('string', 'append'))
def _(em, obj, ot, args, e): return f"y_string_append({loc_of(em, obj)}, {', '.join(em.ex(a) for a in args)})"

# ---------------------------------------------------------------- std::vector<T> (ghost sequence)
def vsuf(em, ot): return em.cn(ot)
@lib(('vector', 'size'))
def _(em, obj, ot, args, e): return f"({loc_of(em, obj)})->size"
@lib(('vector', 'empty'))
def _(em, obj, ot, args, e): return f"(({loc_of(em, obj)})->size == 0)"
@lib(('vector', 'clear'))
def _(em, obj, ot, args, e): return f"Y_VEC_CLEAR({loc_of(em, obj)})"
@lib(('vector', 'reserve'))
def _(em, obj, ot, args, e): return f"((void)0)"
@lib(('vector', 'end'))
def _(em, obj, ot, args, e): return f"Y_VEC_END({loc_of(em, obj)})"
@lib(('vector', 'begin'))
def _(em, obj, ot, args, e): return f"Y_VEC_BEGIN({loc_of(em, obj)})"
@lib(('vector', 'erase'))
def _(em, obj, ot, args, e): return f"Y_VEC_ERASE({loc_of(em, obj)}, {em.ex(args[0])}, {em.ex(args[1])})"
@lib(('vector', 'at'))
def _(em, obj, ot, args, e): return f"(*Y_VEC_AT({loc_of(em, obj)}, {em.ex(args[0])}))"
@lib(('vector', 'emplace_back'), ('vector', 'push_back'))
def _(em, obj, ot, args, e):
    et = ot.args[0]
    if et.kind == 'prim' and et.name == 'int':   # std::vector<std::thread>: thread creation is not modelled
        return "Y_THREAD_SPAWN_NOT_MODELLED()"
    if len(args) == 1: val = em.ex(args[0])
    else: val = f"(({em.cn(et)}){{{', '.join(em.ex(a) for a in args)}}})"
    return f"Y_VEC_PUSH({loc_of(em, obj)}, {em.cn(et)}, {val})"

# ---------------------------------------------------------------- concurrent_queue<T> (ghost FIFO)
@lib(('queue', 'push'))
def _(em, obj, ot, args, e): return f"Y_QUEUE_PUSH_{em.cn(ot)}({loc_of(em, obj)}, {em.ex(args[0])})"
@lib(('queue', 'try_pop'))
def _(em, obj, ot, args, e): return f"Y_QUEUE_TRY_POP({em.cn(ot)}, {loc_of(em, obj)}, {em.addr(args[0])})"
@lib(('queue', 'empty'))
def _(em, obj, ot, args, e): return f"Y_QUEUE_EMPTY_{em.cn(ot)}({loc_of(em, obj)})"

# tuple / pair assignment
@lib(('tuple', 'operator='), ('pair', 'operator='))
def _(em, obj, ot, args, e):
    st = em.ct(args[0]['type'])
    if st.kind == 'ref': st = st.args[0]
    if em.cn(st) == em.cn(ot): return f"(*{loc_of(em, obj)} = {em.ex(args[0])})"
    return f"(*{loc_of(em, obj)} = {em.convert_tuple(st, ot, em.ex(args[0]))})"
@lib(('ptr', 'operator-'), ('ptr', 'operator+'))
def _(em, obj, ot, args, e):  # vector iterator arithmetic (iterators are element pointers)
    op = '-' if e and 'operator-' in str(kids(e)[0]) else '+'
    return f"({em.ex(obj[0])} {op} {em.ex(args[0])})"

@lib(('opaque', 'operator!='))
def _(em, obj, ot, args, e): return f"({em.ex(obj[0])} != {em.ex(args[0])})"
@lib(('opaque', 'operator=='))
def _(em, obj, ot, args, e): return f"({em.ex(obj[0])} == {em.ex(args[0])})"

# iterators are element pointers
@lib(('ptr', 'operator!='))
def _(em, obj, ot, args, e): return f"({em.ex(obj[0])} != {em.ex(args[0])})"
@lib(('ptr', 'operator=='))
def _(em, obj, ot, args, e): return f"({em.ex(obj[0])} == {em.ex(args[0])})"
@lib(('ptr', 'operator++'))
def _(em, obj, ot, args, e): return f"(++{em.ex(obj[0])})"
@lib(('ptr', 'operator*'))
def _(em, obj, ot, args, e): return f"(*{em.ex(obj[0])})"
@lib(('prim', 'join'))
def _(em, obj, ot, args, e): return f"Y_THREAD_JOIN({loc_of(em, obj)})"
@lib(('prim', 'operator='))
def _(em, obj, ot, args, e):
    # std::thread var = std::thread(fn)
    s = em.strip(args[0])
    while s.get('kind') in ('CXXFunctionalCastExpr', 'CXXTemporaryObjectExpr', 'CXXConstructExpr', 'MaterializeTemporaryExpr', 'ImplicitCastExpr', 'CXXBindTemporaryExpr') and kids(s): s = kids(s)[0]
    if s.get('kind') != 'DeclRefExpr' or s['referencedDecl']['kind'] not in ('FunctionDecl', 'CXXMethodDecl'): raise Abort('std::thread assignment form')
    return f"Y_THREAD_START_{em.fname(s['referencedDecl']['id'])}({loc_of(em, obj)})"
