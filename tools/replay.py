#!/usr/bin/env python3
"""Native replay of a verifier counterexample against the real headers (DESIGN.md 3.5).
A spec may carry `//@ replay <job>` sections: a C++ program template with ${regex} placeholders that are filled with the
value of the first trace assignment whose lhs matches the regex. The program must exit 1 iff the obligation's
postcondition is violated natively. Without a template (or with unfilled placeholders) the violation is still reported,
marked no-failing-input-found."""
import os, re, subprocess, json
import yrun

def first_value(trace, rx):
    for s in trace:
        if re.fullmatch(rx, s.get('lhs') or ''):
            v = s.get('value')
            if v is None: continue
            v = str(v)
            if v in ('TRUE', 'FALSE'): return '1' if v == 'TRUE' else '0'
            m = re.match(r'^(-?\d+)[a-zA-Z]*$', v)
            if m: return m.group(1)
            if s.get('binary'): return str(int(s['binary'].replace(' ', ''), 2))
            return v
    return None

def try_replay(prop, r, f, job, spec, cpath, outdir):
    tpl = getattr(spec, 'replays', {}).get(job['name'])
    info = {'template': bool(tpl)}
    if not tpl:
        info['note'] = 'no native replay template for this unit'; return False, info
    trace = f.get('trace', [])
    missing = []
    def sub(m):
        v = first_value(trace, m.group(1))
        if v is None:
            missing.append(m.group(1)); return '0'
        return v
    src = re.sub(r'\$\{([^}]+)\}', sub, tpl)
    if missing:
        info['note'] = 'counterexample does not determine: ' + ', '.join(missing); return False, info
    cpp = os.path.join(outdir, f"replay-{job['name']}.cpp"); exe = cpp[:-4]
    open(cpp, 'w').write(src)
    cmd = ['g++', '-std=c++17', '-O1', '-DNDEBUG', '-I' + os.path.join(yrun.REPO, 'include'), '-I' + os.path.join(yrun.REPO, 'third_party'),
           cpp, '-o', exe, '-lglog', '-ltbb', '-lpthread']
    p = subprocess.run(cmd, stdout=subprocess.PIPE, stderr=subprocess.STDOUT, text=True)
    info['compile'] = ' '.join(cmd); info['source'] = src
    if p.returncode != 0:
        info['note'] = 'replay program did not compile: ' + p.stdout[-1500:]; return False, info
    try:
        q = subprocess.run([exe], stdout=subprocess.PIPE, stderr=subprocess.STDOUT, text=True, timeout=int(job.get('replay_timeout', '60')))
        info['output'] = q.stdout[-3000:]; info['exit'] = q.returncode
        return q.returncode == 1, info
    except subprocess.TimeoutExpired:
        info['note'] = 'replay timed out'; return False, info
