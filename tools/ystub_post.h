/* ystub_post.h - stubs that need the emitted types (currently none) */
