/* ystub_pre.h - hand-written models of the library operations yakushima uses (trusted base, DESIGN.md 3.2).
 * Included before the emitted types. */
#ifndef YSTUB_PRE_H
#define YSTUB_PRE_H
#include <stdint.h>
#include <stdbool.h>
#include <stddef.h>
#include <stdlib.h>
#include <string.h>

/* ghost counters saturate (never wrap) */
#define Y_SAT_INC(x) ((x) += ((x) != 0xffffffffu))
#define Y_SATP1(x) ((x) + ((x) != 0xffffffffu))
#define Y_MO 0
#define Y_VACUITY_PROBE() __CPROVER_assert(0, "Y_VACUITY_PROBE")
#define Y_PAUSE() ((void)0)
#define Y_THREAD_JOIN(p) (*(p) = 0)   /* std::thread is an int: 1 = started and not yet joined */
/* std::thread creation (parallel destroy) is not modelled: proved unreachable because destroy_manager::check_room() is false when hardware_concurrency_ == 0 */
#define Y_THREAD_SPAWN_NOT_MODELLED() __CPROVER_assert(0, "thread creation not modelled (must be unreachable)")
#define Y_HW_CONCURRENCY() ((uint64_t)0)

_Bool nondet_bool(void);
uint64_t nondet_u64(void);

/* glog: LOG(ERROR) << ... ; operands dropped. Contracts state !y_log_error ("programming error" paths unreachable). */
unsigned y_log_error;
#define Y_LOG_ERROR() (y_log_error = 1)

/* std::array<T,N>: struct { T a[N]; }.  .at(i) is an in-bounds obligation (CBMC --bounds-check on a[i]);
 * an out-of-range index would throw and terminate the real program. */
static inline uint64_t y_at_idx(uint64_t i, uint64_t n) { __CPROVER_assert(i < n, "std::array::at: index in range (out of range would throw and terminate)"); return i; }
#define Y_AT(p, i, N) (&(p)->a[y_at_idx((i), (N))])
/* range-for end pointer. With -DY_SYMBOLIC_TABLE=<cap> the array of that capacity (the session table) is iterated up to a
 * symbolic configured capacity y_table_n <= cap, so that one proof covers every YAKUSHIMA_MAX_PARALLEL_SESSIONS. */
uint64_t y_table_n;
#ifdef Y_SYMBOLIC_TABLE
#define Y_ARR_N(p, N) ((N) == Y_SYMBOLIC_TABLE ? y_table_n : (uint64_t)(N))
#else
#define Y_ARR_N(p, N) ((uint64_t)(N))
#endif
#define Y_ARR_END(p, N) (&(p)->a[0] + Y_ARR_N(p, N))
/* std::array::fill, loop-free (N <= 16): an un-contracted loop in a callee breaks dfcc's loop-contract mode */
#define Y_FILL1(p, N, v, i) if ((i) < (N)) (p)->a[(i)] = (v);
#define Y_FILL(p, N, v) { Y_FILL1(p,N,v,0) Y_FILL1(p,N,v,1) Y_FILL1(p,N,v,2) Y_FILL1(p,N,v,3) Y_FILL1(p,N,v,4) Y_FILL1(p,N,v,5) Y_FILL1(p,N,v,6) Y_FILL1(p,N,v,7) Y_FILL1(p,N,v,8) Y_FILL1(p,N,v,9) Y_FILL1(p,N,v,10) Y_FILL1(p,N,v,11) Y_FILL1(p,N,v,12) Y_FILL1(p,N,v,13) Y_FILL1(p,N,v,14) Y_FILL1(p,N,v,15) __CPROVER_assert((N) <= 16, "Y_FILL model bound"); }
/* statement repetition (loop-free specification functions); two copies so that one can be nested in the other */
#define Y_REP8(F) F(0) F(1) F(2) F(3) F(4) F(5) F(6) F(7)
#define Y_REP14(F) F(0) F(1) F(2) F(3) F(4) F(5) F(6) F(7) F(8) F(9) F(10) F(11) F(12) F(13)
#define Y_REP15(F) F(0) F(1) F(2) F(3) F(4) F(5) F(6) F(7) F(8) F(9) F(10) F(11) F(12) F(13) F(14)
#define Y_REP15B(F) F(0) F(1) F(2) F(3) F(4) F(5) F(6) F(7) F(8) F(9) F(10) F(11) F(12) F(13) F(14)
#define Y_REP16(F) F(0) F(1) F(2) F(3) F(4) F(5) F(6) F(7) F(8) F(9) F(10) F(11) F(12) F(13) F(14) F(15)
/* conjunctions over all indices (universal statements without quantifiers) */
#define ALL15(F) (F(0) && F(1) && F(2) && F(3) && F(4) && F(5) && F(6) && F(7) && F(8) && F(9) && F(10) && F(11) && F(12) && F(13) && F(14))
#define ALL15B(F) (F(0) && F(1) && F(2) && F(3) && F(4) && F(5) && F(6) && F(7) && F(8) && F(9) && F(10) && F(11) && F(12) && F(13) && F(14))
#define ALL16(F) (ALL15(F) && F(15))
#define ALL7(F) (F(0) && F(1) && F(2) && F(3) && F(4) && F(5) && F(6))
#define ANY7(F) (F(0) || F(1) || F(2) || F(3) || F(4) || F(5) || F(6))
#define Y_MIN(T, a, b) ((T)(b) < (T)(a) ? (T)(b) : (T)(a))
#define Y_BITSET_SET(p, i) (*(p) = (uint16_t)(*(p) | (uint16_t)(1u << (i))))
#define Y_BITSET_TEST(p, i) (((*(p)) >> (i)) & 1u)

/* memcmp: loop-free model for n <= 16 (all slice / key_tuple comparisons); the looping model for byte strings */
static inline int y_memcmp16(const void* a, const void* b, uint64_t n)
{
  const unsigned char* x = (const unsigned char*)a; const unsigned char* y = (const unsigned char*)b;
  __CPROVER_assert(n <= 16, "y_memcmp16: size within the loop-free model");
#define Y_S(i) if (n > i) { if (x[i] != y[i]) return x[i] < y[i] ? -1 : 1; } else return 0;
  Y_S(0) Y_S(1) Y_S(2) Y_S(3) Y_S(4) Y_S(5) Y_S(6) Y_S(7) Y_S(8) Y_S(9) Y_S(10) Y_S(11) Y_S(12) Y_S(13) Y_S(14) Y_S(15)
#undef Y_S
  return 0;
}
#if defined(Y_SKELETON_BYTES)
/* skeleton units: byte-string comparisons are nondeterministic (sound over-approximation of every key content) */
int nondet_int(void);
#ifdef Y_MEMCMP_GHOST
/* endpoint-clause units: the nondeterministic result and the length of every comparison / key-slice copy are recorded in ghosts
 * (y_memcmp_ghost is defined by the unit's spec) */
uint64_t g_cpn;
static inline int y_memcmp_ghost(const void* a, const void* b, uint64_t n, _Bool in_unit_fn);
/* only the comparisons made by the function under contract itself are recorded (Y_MEMCMP_GHOST_FN = its emitted name); the others
 * (e.g. node_version64_body::operator==, nondeterministic in skeleton units) stay plain nondeterministic */
#define Y_MEMCMP(a, b, n) y_memcmp_ghost((a), (b), (n), (_Bool)(sizeof(__func__) == sizeof(Y_MEMCMP_GHOST_FN) && __func__[0] == Y_MEMCMP_GHOST_FN[0] && __func__[sizeof(__func__) - 2] == Y_MEMCMP_GHOST_FN[sizeof(Y_MEMCMP_GHOST_FN) - 2] && __func__[sizeof(__func__) / 2] == Y_MEMCMP_GHOST_FN[sizeof(Y_MEMCMP_GHOST_FN) / 2]))
#else
#define Y_MEMCMP(a, b, n) ((void)(a), (void)(b), (void)(n), nondet_int())
#endif
#elif defined(Y_MEMCMP_LOOP)
static inline int y_memcmp_loop(const void* a, const void* b, uint64_t n)
{
  const unsigned char* x = (const unsigned char*)a; const unsigned char* y = (const unsigned char*)b;
  for (uint64_t i = 0; i < n; ++i) { if (x[i] != y[i]) return x[i] < y[i] ? -1 : 1; }
  return 0;
}
#define Y_MEMCMP(a, b, n) y_memcmp_loop((a), (b), (n))
#else
#define Y_MEMCMP(a, b, n) y_memcmp16((a), (b), (n))
#endif
/* skeleton units (-DY_SKELETON_BYTES): the bytes copied out of key strings are irrelevant to the clause being proved; the
 * destination receives ARBITRARY bytes (sound over-approximation of every key content; only key-slice copies, n <= 8, occur) */
#ifdef Y_SKELETON_BYTES
static inline void* y_memcpy_skel(void* d, uint64_t n) { __CPROVER_assert(n <= 8, "skeleton memcpy: key-slice copy"); if (n > 0) __CPROVER_havoc_slice(d, n);
#ifdef Y_MEMCMP_GHOST
  g_cpn = n;
#endif
  return d; }
#define Y_MEMCPY(d, s, n) y_memcpy_skel((d), (n))
#else
#define Y_MEMCPY(d, s, n) memcpy((d), (s), (n))
#endif
#define Y_MEMMOVE(d, s, n) memmove((d), (s), (n))

/* std::string_view */
typedef struct y_sv { const char* data; uint64_t size; } y_sv;
static const char y_empty_str[1] = {0};
#define Y_EMPTY_STR ((const char*)y_empty_str)
static inline y_sv y_sv_from_cstr(const char* s) { y_sv r; r.data = s; r.size = (s == Y_EMPTY_STR) ? 0 : nondet_u64(); return r; }   /* string_view(const char*): length = strlen, unknown unless it is the literal "" */
static inline void y_sv_remove_prefix(y_sv* s, uint64_t n) { s->data += n; s->size -= n; }
/* compare: abstracted to its sign through a ghost oracle that is consistent with length-0 cases; units that need the
 * exact byte semantics define Y_SV_COMPARE_EXACT */
int __CPROVER_uninterpreted_svcmp(const char*, uint64_t, const char*, uint64_t);   /* same arguments => same result */
#define y_sv_compare_oracle(a, b) __CPROVER_uninterpreted_svcmp((a).data, (a).size, (b).data, (b).size)
static inline int y_sv_compare(y_sv* a, y_sv b)
{
#ifdef Y_SV_COMPARE_EXACT
  uint64_t m = a->size < b.size ? a->size : b.size;
  int r = m ? Y_MEMCMP(a->data, b.data, m) : 0;
  if (r != 0) return r;
  return a->size < b.size ? -1 : (a->size > b.size ? 1 : 0);
#else
  if (a->size == 0 && b.size == 0) return 0;
  if (a->size == 0) return -1;
  if (b.size == 0) return 1;
  return y_sv_compare_oracle(*a, b);
#endif
}

/* operator new(size, align) / operator delete(ptr, size, align): ledger of the last allocation / release */
typedef struct y_alloc_ghost { void* new_ptr; uint64_t new_size; uint64_t new_align; unsigned new_cnt;
                               void* del_ptr; uint64_t del_size; uint64_t del_align; unsigned del_cnt; } y_alloc_ghost;
y_alloc_ghost y_alloc;
static inline void* Y_OP_NEW(uint64_t size, uint64_t align)
{
  void* p = malloc(size);
  __CPROVER_assume(p != 0);
  __CPROVER_assume((((uint64_t)p) & (align - 1)) == 0);
  __CPROVER_assume((((uint64_t)p) & (3UL << 62)) == 0);
  y_alloc.new_ptr = p; y_alloc.new_size = size; y_alloc.new_align = align; Y_SAT_INC(y_alloc.new_cnt);
  return p;
}
static inline void y_op_delete(void* p, uint64_t size, uint64_t align)
{
  y_alloc.del_ptr = p; y_alloc.del_size = size; y_alloc.del_align = align; Y_SAT_INC(y_alloc.del_cnt);
#ifndef Y_NO_REAL_FREE
  free(p);   /* units that release pointers taken from an arbitrary queue element record the release in the ledger only */
#endif
}
/* Y_OP_DELETE_HOOK / Y_NODE_DELETE_HOOK / Y_QUEUE_POP_HOOK_<Q>: per-unit ghost observers (default: nothing), defined in a unit's `early` section */
#define Y_OP_DELETE(p, size, align) (Y_OP_DELETE_HOOK((p), (size), (align)), y_op_delete((p), (size), (align)))

/* node allocation (new border_node() / new interior_node()) and delete */
typedef struct y_node_ghost { void* new_ptr[4]; unsigned new_cnt; void* del_ptr[4]; unsigned del_cnt; } y_node_ghost;
y_node_ghost y_nodes;
static inline void* y_alloc_node(uint64_t size)
{
  void* p = malloc(size);
  __CPROVER_assume(p != 0);
  __CPROVER_assume((((uint64_t)p) & (3UL << 62)) == 0);
  if (y_nodes.new_cnt < 4) y_nodes.new_ptr[y_nodes.new_cnt] = p;
  Y_SAT_INC(y_nodes.new_cnt);
  return p;
}
static inline void y_free_node_raw(void* p)
{
  if (y_nodes.del_cnt < 4) y_nodes.del_ptr[y_nodes.del_cnt] = p;
  Y_SAT_INC(y_nodes.del_cnt);
#ifndef Y_NO_REAL_FREE
  free(p);
#endif
}
#define y_free_node(p) (Y_NODE_DELETE_HOOK((p)), y_free_node_raw((p)))
#define Y_DYNCAST(R, x) (((x) != 0 && (x)->y_kind == Y_KIND_##R) ? (R*)(x) : (R*)0)
#define Y_UNREACHABLE_VIRTUAL() __CPROVER_assert(0, "virtual dispatch on an object of unknown dynamic type")

/* integer -> pointer conversion (tagged pointers: value* | bit 62, base_node* | bit 63).  Semantically the identity; the
 * ghost table y_i2p only tells CBMC's points-to analysis which object an integer that equals a known address designates. */
void* y_i2p[4];
static inline void* y_int2ptr(uint64_t x)
{
  if (y_i2p[0] != 0 && x == (uint64_t)y_i2p[0]) return y_i2p[0];
  if (y_i2p[1] != 0 && x == (uint64_t)y_i2p[1]) return y_i2p[1];
  if (y_i2p[2] != 0 && x == (uint64_t)y_i2p[2]) return y_i2p[2];
  if (y_i2p[3] != 0 && x == (uint64_t)y_i2p[3]) return y_i2p[3];
  return (void*)x;
}

/* ghost event clock for store ordering */
unsigned y_ev;

/* field groups of the per-type ghost record, for precise assigns clauses */
#define Y_G_LD(S) y_g_##S.ld_cnt, y_g_##S.ld_val, y_g_##S.ld_loc, y_g_##S.obs
#define Y_G_ST(S) y_g_##S.st_cnt, y_g_##S.st_val, y_g_##S.st_loc, y_g_##S.st_ev
#define Y_G_CAS(S) y_g_##S.cas_ok, y_g_##S.cas_fail, y_g_##S.cas_old, y_g_##S.cas_new, y_g_##S.cas_loc, y_g_##S.cas_ev, y_g_##S.cas_seen, y_g_##S.obs
/* std::atomic<T> / __atomic builtins: one sequentially consistent step each (memory orders dropped).
 * y_g_<S>.arb != 0 selects arbitrary-interference mode for that value type: loads return any value, a CAS succeeds or
 * fails nondeterministically (on failure `expected` receives any value). Stores always hit memory. */
/* rely condition on the values an interfering environment may make a location hold (default: anything).
 * A unit that restricts it (`//@ rely S`) states the restriction as writer-side obligations elsewhere. */
#define Y_RELY_DEFAULT(T, S) static inline _Bool y_rely_##S(T* loc, T v) { (void)loc; (void)v; return 1; }
/* -DY_NO_GHOST_LOG: sequential-only atomics without the ghost event record (units that do not refer to it; far fewer
 * instrumented assignments for dfcc). The ghost types still exist so that shared contract text compiles. */
#ifdef Y_NO_GHOST_LOG
#define Y_DEFINE_ATOMIC(T, S) \
  T nondet_##S(void); \
  _Bool y_arb_##S; \
  typedef struct y_ghost_##S { unsigned ld_cnt; T ld_val; T* ld_loc; unsigned cas_ok; unsigned cas_fail; T cas_old; T cas_new; T* cas_loc; \
                               unsigned st_cnt; T st_val; T* st_loc; unsigned st_ev; unsigned cas_ev; T cas_seen; T obs; } y_ghost_##S; \
  y_ghost_##S y_g_##S; \
  static inline T Y_LOAD_##S(T* loc) { return *loc; } \
  static inline void Y_STORE_##S(T* loc, T v) { *loc = v; } \
  static inline _Bool Y_CAS_##S(T* loc, T* expected, T desired) { \
    if ((y_memcmp16(loc, expected, sizeof(T)) == 0) && nondet_bool()) { *loc = desired; return 1; } \
    *expected = *loc; return 0; }

#else
#define Y_DEFINE_ATOMIC(T, S) \
  T nondet_##S(void); \
  _Bool y_arb_##S; \
  typedef struct y_ghost_##S { unsigned ld_cnt; T ld_val; T* ld_loc; unsigned cas_ok; unsigned cas_fail; T cas_old; T cas_new; T* cas_loc; \
                               unsigned st_cnt; T st_val; T* st_loc; unsigned st_ev; unsigned cas_ev; T cas_seen; T obs; } y_ghost_##S; \
  y_ghost_##S y_g_##S; \
  static inline T Y_LOAD_##S(T* loc) { T v; if (y_arb_##S) { v = nondet_##S(); __CPROVER_assume(y_rely_##S(loc, v)); } else v = *loc; \
    Y_SAT_INC(y_g_##S.ld_cnt); y_g_##S.ld_val = v; y_g_##S.ld_loc = loc; y_g_##S.obs = v; return v; } \
  static inline void Y_STORE_##S(T* loc, T v) { *loc = v; Y_SAT_INC(y_g_##S.st_cnt); y_g_##S.st_val = v; y_g_##S.st_loc = loc; y_g_##S.st_ev = ++y_ev; } \
  static inline _Bool Y_CAS_##S(T* loc, T* expected, T desired) { \
    _Bool ok; \
    if (y_arb_##S) ok = nondet_bool(); else ok = (y_memcmp16(loc, expected, sizeof(T)) == 0) && nondet_bool(); \
    if (ok) { Y_SAT_INC(y_g_##S.cas_ok); y_g_##S.obs = *expected; y_g_##S.cas_old = *expected; y_g_##S.cas_new = desired; y_g_##S.cas_loc = loc; y_g_##S.cas_ev = ++y_ev; *loc = desired; return 1; } \
    Y_SAT_INC(y_g_##S.cas_fail); \
    if (y_arb_##S) { *expected = nondet_##S(); __CPROVER_assume(y_rely_##S(loc, *expected)); } else *expected = *loc; \
    y_g_##S.cas_seen = *expected; y_g_##S.obs = *expected; \
    return 0; }

#endif
#ifdef Y_NO_GHOST_LOG
#define Y_DEFINE_ATOMIC_ARITH(T, S) \
  static inline T Y_FADD_##S(T* loc, T d) { T o = *loc; *loc = (T)(o + d); return o; } \
  static inline T Y_FSUB_##S(T* loc, T d) { T o = *loc; *loc = (T)(o - d); return o; }
#else
#define Y_DEFINE_ATOMIC_ARITH(T, S) \
  static inline T Y_FADD_##S(T* loc, T d) { T o = *loc; *loc = (T)(o + d); Y_SAT_INC(y_g_##S.st_cnt); y_g_##S.st_val = *loc; y_g_##S.st_loc = loc; y_g_##S.st_ev = ++y_ev; return o; } \
  static inline T Y_FSUB_##S(T* loc, T d) { T o = *loc; *loc = (T)(o - d); Y_SAT_INC(y_g_##S.st_cnt); y_g_##S.st_val = *loc; y_g_##S.st_loc = loc; y_g_##S.st_ev = ++y_ev; return o; }
#endif

/* concurrent_queue<T>: UNBOUNDED model. The queue is its length plus ghost counters; try_pop on a non-empty queue either fails
 * spuriously (TBB allows that under contention) or yields an ARBITRARY element (the next element of an arbitrary sequence), so
 * whatever a consumer proves holds for every queue content and every queue length. FIFO order itself is TBB's (trusted). */
#define Y_DECLARE_QUEUE(Q, T) \
  struct Q { uint64_t len; unsigned pushed; unsigned popped; T last_pushed; T last_popped; }; \
  T nondet_##Q(void); \
  static inline void Y_QUEUE_PUSH_##Q(Q* q, T v) { __CPROVER_assume(q->len < (1UL << 62)); q->len++; Y_SAT_INC(q->pushed); q->last_pushed = v; } \
  static inline _Bool Y_QUEUE_EMPTY_##Q(Q* q) { return q->len == 0; } \
  static inline _Bool y_queue_try_pop_##Q(Q* q, T* out) { if (q->len == 0) return 0; if (nondet_bool()) return 0; *out = nondet_##Q(); q->len--; Y_SAT_INC(q->popped); q->last_popped = *out; return 1; }

/* std::vector<T>: ghost sequence with bounded backing store */
#ifndef Y_VEC_CAP
#define Y_VEC_CAP 4
#endif
#ifdef Y_SKELETON_VEC
/* skeleton units: a vector is its size; elements are observed at push time through the hook Y_VEC_PUSH_HOOK_<vector type>(v, x)
 * and removals through Y_VEC_ERASE_HOOK(v, new_size) (both default to nothing; a unit defines them in its `early` section) */
#define Y_DECLARE_VEC(V, T) struct V { uint64_t size; };
#else
#define Y_DECLARE_VEC(V, T) struct V { T buf[Y_VEC_CAP]; uint64_t size; };
#endif
#ifdef Y_SKELETON_VEC
#define Y_VEC_CLEAR(v) (Y_VEC_ERASE_HOOK((v), 0), (v)->size = 0)
/* iterators are positions (integers: only end() - n and end() are ever formed) */
#define Y_VEC_END(v) ((uint64_t)(v)->size)
#define Y_VEC_PUSH(v, T, x) Y_VEC_PUSH_##T((v), (x))
#define Y_VEC_ERASE(v, b, e) (Y_VEC_ERASE_HOOK((v), (v)->size - (uint64_t)((e) - (b))), (v)->size -= (uint64_t)((e) - (b)))
#else
#define Y_VEC_CLEAR(v) ((v)->size = 0)
#define Y_VEC_BEGIN(v) (&(v)->buf[0])
#define Y_VEC_END(v) (&(v)->buf[0] + (v)->size)
static inline uint64_t y_vec_at_idx(uint64_t i, uint64_t n) { __CPROVER_assert(i < n, "std::vector::at: index < size (out of range would throw)"); return i; }
#define Y_VEC_AT(v, i) (&(v)->buf[y_vec_at_idx((i), (v)->size)])
#define Y_VEC_PUSH(v, T, x) (__CPROVER_assert((v)->size < Y_VEC_CAP, "ghost vector capacity (model bound)"), (v)->buf[(v)->size] = (x), (v)->size++)
#define Y_VEC_ERASE(v, b, e) ((v)->size -= (uint64_t)((e) - (b)))   /* only erase(end - n, end) occurs */
#endif

/* std::string: bounded buffer */
#ifndef Y_STR_CAP
#define Y_STR_CAP 8
#endif
#ifdef Y_SKELETON_BYTES
typedef struct y_string { uint64_t size; } y_string;     /* skeleton: a string is its length */
static inline y_string y_string_empty(void) { y_string s; s.size = 0; return s; }
static inline uint64_t y_string_size(y_string* s) { return s->size; }
static inline char* y_string_data(y_string* s) { (void)s; return (char*)0; }
static inline void y_string_append(y_string* s, const char* p, uint64_t n) { (void)p; s->size += n; }
static inline y_sv y_string_view(y_string* s) { y_sv r; r.data = 0; r.size = s->size; return r; }
#else
typedef struct y_string { char buf[Y_STR_CAP]; uint64_t size; } y_string;
static inline y_string y_string_empty(void) { y_string s; s.size = 0; return s; }
static inline uint64_t y_string_size(y_string* s) { return s->size; }
static inline char* y_string_data(y_string* s) { return s->buf; }
static inline y_sv y_string_view(y_string* s) { y_sv r; r.data = s->buf; r.size = s->size; return r; }
#endif
#endif
