#!/bin/sh
# usage: confirm_seed.sh <PROP> <n>   (worktree /tmp/wt/<PROP>, patch /tmp/wt/out-<PROP>/change<n>.diff, demo demo<n>.cpp)
# confirms: demo passes without the change, fails with it; library + all tests build with it; test suite passes with it.
ID=$1; N=$2; WT=/tmp/wt/$ID; OUT=/tmp/wt/out-$ID; R=$OUT/confirm$N.txt
: > $R
cd $WT || exit 1
git checkout -- include 2>/dev/null
[ -d third_party/googletest/googletest ] || cp -r /repo/third_party/googletest third_party/ 2>/dev/null
g++ -std=c++17 -O2 -DNDEBUG -I$WT/include -I$WT/third_party $OUT/demo$N.cpp -o $OUT/demo${N}_clean -lglog -ltbb -lpthread >>$R 2>&1
( cd $OUT && timeout 300 ./demo${N}_clean >/dev/null 2>&1 ); echo "demo without change: exit $?" >> $R
git apply $OUT/change$N.diff || { echo "patch does not apply" >> $R; exit 1; }
g++ -std=c++17 -O2 -DNDEBUG -I$WT/include -I$WT/third_party $OUT/demo$N.cpp -o $OUT/demo${N}_mut -lglog -ltbb -lpthread >>$R 2>&1
( cd $OUT && timeout 300 ./demo${N}_mut >/dev/null 2>&1 ); echo "demo with change: exit $?" >> $R
[ -f _build/build.ninja ] || cmake -G Ninja -B _build -DCMAKE_BUILD_TYPE=RelWithDebInfo -DBUILD_TESTS=ON >/dev/null 2>&1
nice cmake --build _build -j8 -- -k 0 > $OUT/build$N.log 2>&1; echo "build rc=$? (failed targets: $(grep -c '^FAILED' $OUT/build$N.log))" >> $R
nice ctest --test-dir _build -j8 --timeout 900 > $OUT/ctest$N.log 2>&1; echo "ctest rc=$?" >> $R
grep -E 'tests passed|Failed|\*\*\*' $OUT/ctest$N.log | head -12 >> $R
git checkout -- include
echo done >> $R
