#!/usr/bin/env python3
"""AST loading / indexing / C++ type-string parsing for y2c (clang 14 JSON dump of namespace yakushima)."""
import json, re, subprocess, os, hashlib

class Abort(Exception):
    """extraction mismatch: anything outside the fixed tables (exit 2, never a VIOLATION)"""

CLANG_FLAGS = ['-std=c++17', '-DNDEBUG', '-fsized-deallocation', '-fsyntax-only',
               '-Xclang', '-ast-dump=json', '-Xclang', '-ast-dump-filter=yakushima::']

def dump_ast(repo, driver, out_json, extra=()):
    cmd = ['clang++'] + CLANG_FLAGS + list(extra) + ['-I%s/include' % repo, '-I%s/third_party' % repo, driver]
    with open(out_json, 'w') as f:
        p = subprocess.run(cmd, stdout=f, stderr=subprocess.PIPE, text=True)
    if p.returncode != 0 or 'error:' in p.stderr:
        raise Abort('clang diagnostics:\n' + p.stderr[:4000])
    return cmd

def load(path):
    txt = open(path).read()
    dec = json.JSONDecoder(); i = 0; objs = []; n = len(txt)
    while i < n:
        while i < n and txt[i].isspace(): i += 1
        if i >= n: break
        o, j = dec.raw_decode(txt, i); objs.append(o); i = j
    return objs

SKIP_KINDS = ('FullComment', 'ParagraphComment', 'TextComment')
def kids(n):
    return [c for c in n.get('inner', []) if not (c.get('kind') or '').endswith('Comment')
            and not (c.get('kind') or '').endswith('Attr')]

# ------------------------------------------------------------------ type strings
def split_top(s, sep=','):
    out = []; d = 0; cur = ''
    for ch in s:
        if ch in '<([': d += 1
        elif ch in '>)]': d -= 1
        if ch == sep and d == 0: out.append(cur.strip()); cur = ''
        else: cur += ch
    if cur.strip(): out.append(cur.strip())
    return out

def strip_cv(s):
    s = s.strip()
    changed = True
    while changed:
        changed = False
        for q in ('const ', 'volatile '):
            if s.startswith(q): s = s[len(q):].strip(); changed = True
        for q in (' const', ' volatile'):
            if s.endswith(q): s = s[:-len(q)].strip(); changed = True
        for q in ('struct ', 'class ', 'enum '):
            if s.startswith(q): s = s[len(q):].strip(); changed = True
    return s

class T:
    """parsed type: kind in prim, ptr, ref, rec, enum, array(std::array), pair, tuple, vector, sv, string, atomic, fn, opaque"""
    def __init__(self, kind, name=None, args=None, n=None):
        self.kind = kind; self.name = name; self.args = args or []; self.n = n
    def __repr__(self): return f"T({self.kind},{self.name},{self.args},{self.n})"

PRIM = {
    'bool': 'bool', 'char': 'char', 'signed char': 'int8_t', 'unsigned char': 'uint8_t',
    'short': 'int16_t', 'unsigned short': 'uint16_t', 'int': 'int', 'unsigned int': 'uint32_t', 'unsigned': 'uint32_t',
    'long': 'int64_t', 'unsigned long': 'uint64_t', 'long long': 'int64_t', 'unsigned long long': 'uint64_t',
    'void': 'void', 'std::size_t': 'uint64_t', 'size_t': 'uint64_t', 'std::uint64_t': 'uint64_t', 'uint64_t': 'uint64_t',
    'std::uint32_t': 'uint32_t', 'uint32_t': 'uint32_t', 'std::uint16_t': 'uint16_t', 'uint16_t': 'uint16_t',
    'std::uint8_t': 'uint8_t', 'uint8_t': 'uint8_t', 'std::int32_t': 'int32_t', 'uintptr_t': 'uint64_t', 'std::uintptr_t': 'uint64_t',
    'std::align_val_t': 'uint64_t', 'std::byte': 'uint8_t', 'std::nullptr_t': 'void*', 'nullptr_t': 'void*',
    'std::memory_order': 'int', 'double': 'double', 'std::ptrdiff_t': 'int64_t', 'ptrdiff_t': 'int64_t',
    '__int128': '__int128', 'unsigned __int128': 'unsigned __int128',
}

class Types:
    def __init__(self, aliases, records, enums):
        self.aliases = aliases      # short or qualified alias name -> type string
        self.records = records      # record short names
        self.enums = enums
        self.generated = {}         # cname -> T for pair/tuple/array/vector structs (in first-use order)

    def parse(self, s):
        s = strip_cv(s)
        if s.endswith('&&'): return T('ref', args=[self.parse(s[:-2])])
        if s.endswith('&'): return T('ref', args=[self.parse(s[:-1])])
        if s.endswith('*const'): s = s[:-5].strip()
        if s.endswith('*'): return T('ptr', args=[self.parse(s[:-1])])
        m = re.fullmatch(r'(.*)\[(\d+)\]', s)
        if m: return T('carray', args=[self.parse(m.group(1))], n=int(m.group(2)))
        if '(' in s and s.endswith(')') and '<' not in s.split('(')[0]:
            return T('fn', name=s)
        if s in PRIM: return T('prim', PRIM[s])
        if s.startswith('yakushima::'): s2 = s[len('yakushima::'):]
        else: s2 = s
        if '<' in s:
            head = s[:s.index('<')]; inner = s[s.index('<') + 1:s.rindex('>')]; tail = s[s.rindex('>') + 1:]
            args = split_top(inner)
            if tail.startswith('::'):
                # e.g. std::array<...>::value_type, std::tuple_element<I, tuple>::type
                if head in ('std::array',) and tail in ('::value_type', '::reference', '::const_reference'):
                    return self.parse(args[0])
                if head == 'std::tuple_element' and tail == '::type':
                    tt = self.parse(args[1]); return tt.args[int(args[0])]
                if head in ('std::vector',) and tail in ('::value_type', '::reference', '::const_reference'):
                    return self.parse(args[0])
                if head in ('std::basic_string_view', 'std::basic_string') and tail in ('::const_pointer', '::pointer'):
                    return T('ptr', args=[T('prim', 'char')])
                if head in ('std::basic_string_view', 'std::basic_string') and tail in ('::size_type',):
                    return T('prim', 'uint64_t')
                if head == '__gnu_cxx::__alloc_traits' and tail in ('::value_type', '::reference', '::const_reference'):
                    return self.parse(args[1])
                if head == 'std::vector' and tail in ('::iterator', '::const_iterator'):
                    return T('ptr', args=[self.parse(args[0])])
                raise Abort('type ' + s)
            if head in ('std::atomic', 'std::__atomic_base', '__atomic_base'): return T('atomic', args=[self.parse(args[0])])
            if head == 'std::array': return T('array', args=[self.parse(args[0])], n=self.const_int(args[1]))
            if head == 'std::pair': return T('pair', args=[self.parse(a) for a in args])
            if head == 'std::tuple': return T('tuple', args=[self.parse(a) for a in args])
            if head == 'std::vector': return T('vector', args=[self.parse(args[0])])
            if head in ('std::basic_string_view',): return T('sv')
            if head in ('std::basic_string',): return T('string')
            if head in ('yakushima::concurrent_queue', 'concurrent_queue'): return T('queue', args=[self.parse(args[0])])
            if head == 'std::bitset': return T('prim', 'uint16_t')
            if head == '__gnu_cxx::__normal_iterator': return self.parse(args[0])
            if head in ('std::initializer_list',): return T('initlist', args=[self.parse(args[0])])
            if head.startswith('std::chrono::') or head.startswith('chrono::'): return T('prim', 'int64_t')
            raise Abort('template type ' + s)
        if s in ('std::string_view', 'string_view'): return T('sv')
        if s in ('std::string', 'string'): return T('string')
        if s in ('std::atomic_bool',): return T('atomic', args=[T('prim', 'bool')])
        if s in ('std::thread',): return T('prim', 'int')
        if s in ('std::chrono::microseconds', 'std::chrono::milliseconds'): return T('prim', 'int64_t')
        for key in (s, s2, s2.split('::')[-1]):
            if key in self.aliases and self.aliases[key] != s:
                return self.parse(self.aliases[key])
        last = s2.split('::')[-1]
        if s2 in self.records or last in self.records: return T('rec', last)
        if s2 in self.enums or last in self.enums: return T('enum', last)
        if s in ('std::ostream', 'std::type_info', 'std::bad_alloc', 'google::LogMessage'): return T('opaque', s)
        raise Abort('type ' + s)

    def const_int(self, s):
        s = s.strip()
        if s.isdigit(): return int(s)
        if s in ('key_slice_length', 'yakushima::key_slice_length'): return self.consts['key_slice_length']
        if s in ('child_length',): return self.consts['key_slice_length'] + 1
        if s in self.consts: return self.consts[s]
        raise Abort('array bound ' + s)

    def cname(self, t):
        """C spelling of a parsed type (usable as declaration specifier)"""
        k = t.kind
        if k == 'prim': return t.name
        if k in ('ptr', 'ref'):
            if t.args[0].kind == 'fn': return 'void*'
            return self.cname(t.args[0]) + '*'
        if k == 'rec': return t.name
        if k == 'enum': return t.name
        if k == 'atomic': return self.cname(t.args[0])
        if k == 'sv': return 'y_sv'
        if k == 'string': return 'y_string'
        if k == 'opaque': return 'int'
        if k == 'initlist': return 'int'
        if k in ('array', 'pair', 'tuple', 'vector', 'queue'):
            parts = [self.mangle(a) for a in t.args]
            nm = {'array': 'arr', 'pair': 'pair', 'tuple': 'tup', 'vector': 'vec', 'queue': 'queue'}[k] + '_' + '_'.join(parts)
            if k == 'array': nm += '_%d' % t.n
            if nm not in self.generated: self.generated[nm] = t
            return nm
        if k == 'carray': return self.cname(t.args[0])  # caller adds [n]
        raise Abort('cname ' + repr(t))

    def mangle(self, t):
        c = self.cname(t)
        return c.replace('*', 'p').replace(' ', '_')

    def ctype(self, tj):
        """from a clang JSON type object"""
        q = tj.get('desugaredQualType', tj['qualType'])
        try:
            return self.parse(q)
        except Abort:
            if 'desugaredQualType' in tj: return self.parse(tj['qualType'])
            raise
