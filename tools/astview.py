#!/usr/bin/env python3
"""Debug helper: print a compact view of a function's AST from the clang JSON dump.
usage: astview.py <dump.json> <qualified-ish name> [maxdepth]"""
import json, sys

def load(path):
    txt = open(path).read()
    dec = json.JSONDecoder(); i = 0; objs = []
    n = len(txt)
    while i < n:
        while i < n and txt[i].isspace(): i += 1
        if i >= n: break
        o, j = dec.raw_decode(txt, i); objs.append(o); i = j
    return objs

def show(n, d=0, maxd=99):
    if not isinstance(n, dict) or d > maxd: return
    k = n.get('kind', '?')
    extra = []
    for key in ('name', 'opcode', 'value', 'castKind', 'isArrow', 'isPostfix', 'valueCategory'):
        if key in n: extra.append(f"{key}={n[key]}")
    if 'type' in n:
        t = n['type']; extra.append('T=' + t.get('qualType', '') + ('|' + t['desugaredQualType'] if 'desugaredQualType' in t else ''))
    if 'referencedDecl' in n:
        r = n['referencedDecl']; extra.append(f"ref={r.get('kind')}:{r.get('name')}:{r.get('id')}")
    if 'referencedMemberDecl' in n: extra.append('mref=' + n['referencedMemberDecl'])
    if 'id' in n and k.endswith('Decl'): extra.append('id=' + n['id'])
    print('  ' * d + k + ' ' + ' '.join(extra))
    for c in n.get('inner', []): show(c, d + 1, maxd)

if __name__ == '__main__':
    objs = load(sys.argv[1]); name = sys.argv[2]; maxd = int(sys.argv[3]) if len(sys.argv) > 3 else 99
    def walk(n, path):
        if not isinstance(n, dict): return
        nm = n.get('name')
        p = path + [nm] if nm and n.get('kind', '').endswith('Decl') else path
        if nm == name.split('::')[-1] and n.get('kind') in ('FunctionDecl', 'CXXMethodDecl', 'CXXConstructorDecl', 'FunctionTemplateDecl', 'CXXRecordDecl', 'VarDecl', 'FieldDecl') and '::'.join(p).endswith(name):
            if any(c.get('kind') == 'CompoundStmt' for c in n.get('inner', [])) or n.get('kind') not in ('FunctionDecl', 'CXXMethodDecl'):
                print('==', '::'.join(p), n.get('kind'), n.get('type', {}).get('qualType'))
                show(n, 0, maxd)
        if n.get('kind') in ('NamespaceDecl', 'CXXRecordDecl', 'FunctionTemplateDecl', 'ClassTemplateDecl', 'ClassTemplateSpecializationDecl', 'TranslationUnitDecl'):
            for c in n.get('inner', []): walk(c, p)
    for o in objs: walk(o, [])
