#!/usr/bin/env python3
"""check.py <PROPERTY> [--tier quick|thorough]
Decides one property: re-extracts the units from /repo's working tree, discharges every contract obligation tagged with the
property, applies the verdict rules of DESIGN.md 3.5 and writes /verif/evidence/<id>.json.
exit 0 held / 1 VIOLATION / 2 undecided (tool limit, timeout, extraction mismatch)."""
import sys, os, re, json, glob, time, shutil, tempfile, subprocess, hashlib
from concurrent.futures import ThreadPoolExecutor
sys.path.insert(0, os.path.dirname(os.path.abspath(__file__)))
import yrun, yunit, yast, replay

VERIF = yrun.VERIF
TRUSTED = [
    "clang 14 parse of include/*.h equals g++ 12's (same language level, Itanium layout)",
    "y2c emitter (tools/y2c.py, yunit.py, ylib.py): C++ AST -> C translation, exercised by seeded-mutation self-tests",
    "ystub_pre.h: sequentially consistent single-step atomics (memory orders dropped), operator new/delete ledger, TBB queue as FIFO, libstdc++ string_view/vector/array semantics, loop-free memcmp model (n<=16)",
    "ystubgen.py: compilation of an (elsewhere enforced) callee contract into a stub body (assert requires / havoc assigns through the callee's own lvalues / assume ensures) and of a dispatcher-loop contract into base and step checks with the function's assigns clause as frame",
    "CBMC 6.11 goto-cc/goto-instrument --dfcc/cbmc, CaDiCaL SAT back end",
    "x86-64 little endian, 64-bit pointers with bits 62/63 clear",
]
DROPS = [
    "memory orders on atomics (each access is one sequentially consistent step)",
    "exceptions: std::array::at becomes an in-bounds obligation; bad_alloc not modelled",
    "glog streams: LOG(ERROR)<<... becomes y_log_error=1, operands dropped",
    "_mm_pause / sleep_for: no-ops; std::thread creation not emitted",
    "alignas / cache-line padding / vtable pointer not in the C structs (sizeof/alignof taken from clang's layout)",
    "C++ object lifetime: new T() = malloc + default member initialisers; delete = free + ledger",
]

def load_known():
    known = []; fixed = []
    p = os.path.join(VERIF, 'known_findings.txt')
    if os.path.exists(p):
        for line in open(p):
            line = line.strip()
            if not line or line.startswith('#'): continue
            if line.startswith('fixed:'): fixed.append(line); continue
            m = re.match(r'known:\s*property=(\S+)\s+job=(\S+)\s+obligation=(\S+)\s*::\s*(.*)', line)
            if m: known.append({'property': m.group(1), 'job': m.group(2), 'obligation': m.group(3), 'what': m.group(4)})
    return known, fixed

MEMO = {}   # (spec, job, tier) -> result, shared by the properties of one `./check ALL` invocation (each job runs once per invocation)

def main():
    args = sys.argv[1:]
    if not args: print(__doc__); return 2
    tier = os.environ.get('VERIF_TIER', 'quick')
    if '--tier' in args: tier = args[args.index('--tier') + 1]
    seed = int(os.environ.get('VERIF_SEED', '0') or 0)
    if args[0] == 'ALL' or ',' in args[0]:
        # every claimed property in one invocation; a job tagged with several properties is run once and reported under each
        props = [c['property_id'] for c in json.load(open(os.path.join(VERIF, 'MANIFEST.json')))['checks']]
        if args[0] != 'ALL': props = [p for p in args[0].split(',') if p]
        heavy_first = sorted(props, key=lambda p: 0 if p in ('C08', 'C02', 'C12', 'C09', 'C18') else 1)
        rcs = []
        for p in heavy_first:
            rc = check_prop(p, tier, seed); print(f'[{p} rc={rc}]', flush=True); rcs.append(rc)
        return 1 if 1 in rcs else (2 if any(rcs) else 0)
    return check_prop(args[0], tier, seed)

def check_prop(prop, tier, seed):
    t0 = time.time()
    evid_path = os.path.join(os.environ.get('VERIF_EVIDENCE_DIR') or os.path.join(VERIF, 'evidence'), prop + '.json')   # (the override is used only by the seeded-change self-tests)
    os.makedirs(os.path.dirname(evid_path), exist_ok=True)
    if os.path.exists(evid_path): os.remove(evid_path)
    os.makedirs(yrun.WORK, exist_ok=True)
    outdir = tempfile.mkdtemp(prefix=f'check-{prop}-', dir=yrun.WORK)
    undecided = []; violations = []; known_hits = []
    results = []; units = {}
    try:
        try:
            ast = yrun.prepare_ast()
        except yast.Abort as a:
            print(f'UNDECIDED property={prop}: extraction failed: {a}'); return finish(prop, tier, seed, t0, evid_path, [], [], [str(a)], [], {}, outdir)
        todo = []
        for sp in sorted(glob.glob(os.path.join(VERIF, 'contracts', '*.spec'))):
            try:
                spec = yunit.parse_spec(sp)
            except yast.Abort as a:
                undecided.append(f'{os.path.basename(sp)}: {a}'); continue
            jobs = [j for j in spec.jobs if prop in j.get('props', '').split(',') and j.get('wip') != '1' and (tier == 'thorough' or j.get('tier', 'quick') == 'quick')]
            if not jobs: continue
            try:
                cpath, spec2, unit = yrun.emit_unit(ast, sp, outdir)
            except yast.Abort as a:
                undecided.append(f'{os.path.basename(sp)}: extraction mismatch: {a}'); continue
            jobs = [j for j in spec2.jobs if prop in j.get('props', '').split(',') and j.get('wip') != '1' and (tier == 'thorough' or j.get('tier', 'quick') == 'quick')]
            units[os.path.basename(sp)] = {'functions': unit.functions, 'c_file_sha': hashlib.sha256(open(cpath, 'rb').read()).hexdigest()[:12]}
            for j in jobs: todo.append((cpath, j, spec2, sp))
        if not todo and not undecided: undecided.append('no job is tagged with this property')
        # heavy jobs first
        todo.sort(key=lambda x: -int(x[1].get('cost', '1')))
        with ThreadPoolExecutor(max_workers=int(os.environ.get('Y_JOBS', '14'))) as ex:
            results = list(ex.map(lambda t: run_one(t, outdir, tier), todo))
        known, fixed = load_known()
        for (cpath, job, spec, sp), r in zip(todo, results):
            r['spec'] = os.path.basename(sp)
            if r['status'] == 'error' and job.get('fallback_unwind') and ('goto-cc failed' in r.get('detail', '') or 'goto-instrument failed' in r.get('detail', '')):
                # the proof script (loop contract text) no longer compiles against the extracted code: decide the function contract
                # without it, by complete unwinding (DESIGN 3.5-2); a counterexample found this way is a real one
                fj = dict(job); fj['name'] = job['name'] + '.fallback'; fj['loops'] = '0'; fj['unwind'] = job['fallback_unwind']
                fj['defs'] = ','.join([x for x in job.get('defs', '').split(',') if x] + ['Y_NO_LOOP_CONTRACTS'] + [x for x in job.get('fallback_defs', '').split(';') if x])
                fj['backend'] = f"full-unwind({job['fallback_unwind']}) fallback: loop contract does not compile against the extracted code"
                if job.get('fallback_stub'): fj['stub'] = job['fallback_stub']; fj.pop('replace', None)
                fb = yrun.run_job(cpath, fj, outdir, tier); fb['spec'] = r['spec']; results.append(fb)
                if fb['status'] == 'failed':
                    for f in fb['failed']: violations.append((fb, f, fj, spec, cpath))
                    continue
                if fb['status'] == 'ok':
                    r['status'] = 'stale-proof-script'; r['note'] = 'loop contract does not compile; contract re-proved by full unwinding'
                    continue
                undecided.append(f"{r['spec']}:{r['job']}: fallback {fb['status']}: {fb.get('detail', '')[:300]}"); continue
            if r['status'] in ('error', 'timeout'):
                undecided.append(f"{r['spec']}:{r['job']}: {r['status']}: {r.get('detail', '')[:400]}"); continue
            if r['status'] == 'failed':
                # fallback decision (DESIGN 3.5-2): if only proof-script obligations (loop invariants / loop assigns) failed and
                # the job names a full-unwinding fallback, re-decide the top-level postconditions without loop contracts
                fb = None
                if job.get('fallback_unwind') and all(is_proof_script_obligation(f) for f in r['failed']):
                    fj = dict(job); fj['name'] = job['name'] + '.fallback'; fj['loops'] = '0'; fj['unwind'] = job['fallback_unwind']
                    fj['backend'] = f"full-unwind({job['fallback_unwind']})"
                    fb = yrun.run_job(cpath, fj, outdir, tier); fb['spec'] = r['spec']; results.append(fb)
                    if fb['status'] == 'ok':
                        r['status'] = 'stale-proof-script'; r['note'] = 'loop invariant stale; postconditions re-proved by full unwinding'
                        continue
                for f in r['failed']:
                    hit = [k for k in known if k['property'] == prop and k['job'] == r['job'] and re.fullmatch(k['obligation'], f['name'] or '')]
                    if hit:
                        known_hits.append((hit[0], r, f)); f['known'] = True
                    else:
                        violations.append((r, f, job, spec, cpath))
        return finish(prop, tier, seed, t0, evid_path, results, violations, undecided, known_hits, units, outdir)
    finally:
        shutil.rmtree(outdir, ignore_errors=True)

def is_proof_script_obligation(f):
    n = (f.get('name') or '') + ' ' + (f.get('desc') or '')
    return ('loop_invariant' in n or 'loop invariant' in n or 'loop_assigns' in n or 'decreases' in n or 'loop_step' in n)

def run_one(t, outdir, tier):
    cpath, job, spec, sp = t
    key = (os.path.basename(sp), job['name'], tier)
    if key in MEMO:
        r = dict(MEMO[key]); r['props'] = job.get('props', '').split(','); return r
    try:
        r = yrun.run_job(cpath, job, outdir, tier)
        if r.get('status') in ('ok', 'failed'): MEMO[key] = r
        return r
    except Exception as e:
        return {'job': job['name'], 'status': 'error', 'detail': repr(e), 'obligations': [], 'seconds': 0, 'cmds': [], 'props': []}

def finish(prop, tier, seed, t0, evid_path, results, violations, undecided, known_hits, units, outdir):
    n = sum(r.get('n', 0) for r in results); ok = sum(r.get('n_ok', 0) for r in results)
    by_backend = {}
    for r in results:
        b = r.get('backend') or 'unspecified'
        d = by_backend.setdefault(b, {'jobs': 0, 'obligations': 0, 'discharged': 0, 'seconds': 0.0})
        d['jobs'] += 1; d['obligations'] += r.get('n', 0); d['discharged'] += r.get('n_ok', 0); d['seconds'] = round(d['seconds'] + r.get('seconds', 0), 2)
    samples = []
    for r in results:
        for o in r.get('obligations', [])[:3]:
            samples.append({'unit': r.get('spec'), 'job': r['job'], 'obligation': o['name'], 'desc': (o['desc'] or '')[:140], 'emitted_line': o['line'],
                            'status': o['status'], 'backend': r.get('backend'), 'job_seconds': round(r.get('seconds', 0), 2)})
    samples = samples[:60]
    viol_lines = []
    REPLAY_DIR = os.environ.get('VERIF_REPLAY_DIR') or os.path.join(VERIF, 'replay')
    os.makedirs(REPLAY_DIR, exist_ok=True)
    seen = set()
    for (r, f, job, spec, cpath) in violations:
        key = (r['job'], f['name'])
        if key in seen: continue
        seen.add(key)
        rp = os.path.join(REPLAY_DIR, f"{prop}-{r['job']}-{re.sub(r'[^A-Za-z0-9_.]', '_', f['name'] or 'x')}.json")
        confirmed, rinfo = replay.try_replay(prop, r, f, job, spec, cpath, outdir)
        json.dump({'property': prop, 'unit': r.get('spec'), 'job': r['job'], 'failed_obligation': f['name'], 'description': f['desc'],
                   'emitted_line': f['line'], 'function': f['function'], 'verifier_cmds': r['cmds'], 'verifier_trace': f.get('trace', [])[-200:],
                   'native_replay': rinfo}, open(rp, 'w'), indent=1)
        viol_lines.append(f"VIOLATION property={prop} replay={rp}" + ('' if confirmed else ' no-failing-input-found'))
    for k, r, f in known_hits:
        print(f"KNOWN-FINDING: property={prop} {k['what']} [job={r['job']} obligation={f['name']}]")
    level_ok = (n > 0 and ok > 0)
    bounded = [{'job': r['job'], 'bound': r.get('backend')} for r in results if 'bounded' in (r.get('backend') or '')]
    nb = sum(r.get('n', 0) for r in results if 'bounded' in (r.get('backend') or ''))
    okb = sum(r.get('n_ok', 0) for r in results if 'bounded' in (r.get('backend') or ''))
    evid = {
        'property_id': prop, 'tier': tier, 'seed': seed, 'level': 'proof',
        'coverage': {
            'obligations': max(n - nb, 0), 'discharged': max(ok - okb, 0),
            'checker_cmd': (results[0]['cmds'][-1] if results and results[0].get('cmds') else 'cbmc (no job ran)'),
            'trusted_base': TRUSTED,
            'samples': samples or [{'note': 'no obligation was generated'}],
            'functions_under_contract': sorted({r.get('enforce_fn') or r['job'] for r in results}),
            'jobs': [{'unit': r.get('spec'), 'job': r['job'], 'status': r['status'], 'obligations': r.get('n', 0), 'discharged': r.get('n_ok', 0),
                      'vacuity_probe_failed_as_required': r.get('probes_ok'), 'backend': r.get('backend'), 'seconds': round(r.get('seconds', 0), 2),
                      'note': r.get('note', '')} for r in results],
            'by_backend': by_backend, 'solver_seconds': round(sum(r.get('seconds', 0) for r in results), 2),
            'bounded': bounded, 'bounded_obligations_not_counted': nb,
            'units': units, 'extraction_drops': DROPS,
            'undecided': undecided, 'known_findings_hit': [k['what'] for k, _, _ in known_hits],
            'clauses': clauses_for(prop),
        },
        'assumptions': TRUSTED + assumptions_for(prop),
        'wall_s': round(time.time() - t0, 2),
        'violations': len(viol_lines),
    }
    json.dump(evid, open(evid_path, 'w'), indent=1)
    for l in viol_lines: print(l)
    if viol_lines:
        print(f"FAILED property={prop}: {len(viol_lines)} obligation(s) refuted"); return 1
    if undecided:
        for u in undecided: print(f"UNDECIDED property={prop}: {u}")
        return 2
    print(f"HELD property={prop} tier={tier}: {ok}/{n} obligations discharged in {len(results)} jobs, {evid['wall_s']}s")
    return 0

def clauses_for(prop):
    p = os.path.join(VERIF, 'contracts', 'clauses.json')
    if os.path.exists(p):
        return json.load(open(p)).get(prop, {})
    return {}
def assumptions_for(prop):
    c = clauses_for(prop)
    return c.get('assumptions', []) if isinstance(c, dict) else []

if __name__ == '__main__':
    sys.exit(main())
