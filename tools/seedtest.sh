#!/bin/sh
# usage: seedtest.sh <patch.diff> <PROP> [more props...]   -- applies the patch to /repo, runs the checks, reverts.
P="$1"; shift
cd /verif
git -C /repo apply "$P" || { echo "patch does not apply"; exit 3; }
for prop in "$@"; do
  ./check "$prop" --tier quick 2>&1 | tail -${SEED_TAIL:-6}; echo "[$prop rc=$?]"
done
git -C /repo checkout -- . ; git -C /repo status --short | grep -v _build
