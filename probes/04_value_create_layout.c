#include <stdint.h>
#include <stdbool.h>
#include <stddef.h>
#include <string.h>
#include <stdlib.h>
typedef struct { uint32_t len_; uint16_t align_; bool need_delete_; } value;
#define kValPtrFlag (1UL<<62)
size_t g_alloc_size, g_alloc_align; void* g_alloc_ptr;
/* stub for ::operator new(size, align): returns fresh block of 'size' bytes whose address is a multiple of align */
static void* OPERATOR_NEW_ALIGNED(size_t size, size_t align){ void* p=malloc(size); __CPROVER_assume(p!=NULL); __CPROVER_assume(((uintptr_t)p & (align-1))==0); __CPROVER_assume(((uintptr_t)p & (3UL<<62))==0); g_alloc_size=size; g_alloc_align=align; g_alloc_ptr=p; return p; }
static value* remove_ptr_flag(const value* val){ return (value*)((uintptr_t)val & ~kValPtrFlag); }
static void* value_get_body(value* val){ value* v=remove_ptr_flag(val); if(v==val) return v; return (void*)&(((unsigned char*)v)[v->align_]); }
static size_t value_get_len(const value* val){ value* v=remove_ptr_flag(val); if(v==val) return sizeof(uintptr_t); return v->len_; }
value* value_create_value_false(const void* in_ptr, size_t v_len, size_t v_align){
  value* v=NULL;
  const size_t kMinAlignment=8; if(v_align<kMinAlignment) v_align=kMinAlignment;
  const size_t total_len=v_len+v_align;
  void* page=OPERATOR_NEW_ALIGNED(total_len,v_align);
  v=(value*)page; v->len_=(uint32_t)v_len; v->align_=(uint16_t)v_align; v->need_delete_=true;
  uintptr_t ptr=(uintptr_t)v | kValPtrFlag; v=(value*)ptr;
  memcpy(value_get_body(v), in_ptr, v_len);
  return v; }
void h(void){ size_t v_len, v_align, k; __CPROVER_assume(v_len <= MAXLEN);
  __CPROVER_assume(v_align==1||v_align==2||v_align==4||v_align==8||v_align==16||v_align==64||v_align==4096);
  unsigned char* in=malloc(v_len); __CPROVER_assume(in!=NULL);
  value* v=value_create_value_false(in,v_len,v_align);
  unsigned char* body=value_get_body(v);
  __CPROVER_assert(value_get_len(v)==v_len,"len round trip");
  __CPROVER_assert(((uintptr_t)body & (v_align-1))==0,"body aligned");
  __CPROVER_assert(body>=(unsigned char*)g_alloc_ptr+8 && body+v_len<=(unsigned char*)g_alloc_ptr+g_alloc_size,"body inside block after header");
  if(k<v_len) __CPROVER_assert(body[k]==in[k],"bytes equal"); }
