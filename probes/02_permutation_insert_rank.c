#include <stdint.h>
#include <stdbool.h>
#include <stddef.h>
#define key_slice_length 15
#define cnk_mask 0xFUL
#define cnk_bit_size 4
#define pkey_bit_size 4
typedef struct { uint64_t body_; } permutation;
int g_stores;
static uint64_t LOAD(permutation* s){ return s->body_; }
static void STORE(permutation* s, uint64_t v){ g_stores++; s->body_=v; }
static uint64_t get_body(permutation* self){ return LOAD(self);} 
static void set_body(permutation* self,uint64_t nb){ STORE(self,nb);} 

/* spec helpers (hand written, the specification) */
static unsigned S_cnk(uint64_t b){ return b & 0xF; }
static unsigned S_at(uint64_t b, unsigned r){ return (b >> (4*(r+1))) & 0xF; }
static bool S_valid(uint64_t b){ /* cnk<=15, slots at rank<cnk distinct and <15 */
  unsigned n=S_cnk(b); unsigned seen=0;
  for(unsigned r=0;r<15;r++){ if(r<n){ unsigned s=S_at(b,r); if(s>=15) return false; if(seen&(1u<<s)) return false; seen|=1u<<s; } }
  return true; }

void permutation_insert_rank(permutation* self, size_t rank, size_t pos)
__CPROVER_requires(__CPROVER_is_fresh(self,sizeof(*self)))
__CPROVER_requires(S_valid(self->body_) && S_cnk(self->body_)<15 && rank<=S_cnk(self->body_) && pos<15)
__CPROVER_requires(g_stores==0)
__CPROVER_assigns(self->body_, g_stores)
__CPROVER_ensures(g_stores==1)
__CPROVER_ensures(S_cnk(self->body_)==S_cnk(__CPROVER_old(self->body_))+1)
__CPROVER_ensures(S_at(self->body_,rank)==pos)
{
        uint64_t per_body = get_body(self);
        uint64_t cnk = per_body & cnk_mask;
        ++cnk;
        uint64_t target = pos << (pkey_bit_size * (rank + 1));
        uint64_t left = 0;
        if (rank == cnk - 1) {
            left = 0;
        } else {
            left = (per_body >> (pkey_bit_size * (rank + 1)))
                   << (pkey_bit_size * (rank + 2));
        }
        uint64_t right = 0;
        if (rank == 0) {
            right = 0;
        } else {
            right = (per_body << (pkey_bit_size * (key_slice_length - rank))) >>
                    (pkey_bit_size * (key_slice_length - rank));
        }
        uint64_t final = left | target | right;
        final &= ~cnk_mask;
        final |= cnk;
        set_body(self,final);
}
/* lemma-style harness: ranks below unchanged, ranks above shifted */
void h_insert(void){ permutation* p; size_t rank, pos; 
  permutation_insert_rank(p, rank, pos); }

void h_insert_full(void){ permutation p; size_t rank,pos; unsigned r;
  __CPROVER_assume(S_valid(p.body_) && S_cnk(p.body_)<15 && rank<=S_cnk(p.body_) && pos<15 && r<=S_cnk(p.body_));
  uint64_t old=p.body_;
  permutation_insert_rank(&p,rank,pos);
  uint64_t nw=p.body_;
  __CPROVER_assert(S_cnk(nw)==S_cnk(old)+1,"cnk");
  if(r<rank) __CPROVER_assert(S_at(nw,r)==S_at(old,r),"below");
  else if(r==rank) __CPROVER_assert(S_at(nw,r)==pos,"at");
  else __CPROVER_assert(S_at(nw,r)==S_at(old,r-1),"above");
}
