#include <stdint.h>
#include <stdbool.h>
#include <stddef.h>
#include <string.h>
#include <stdlib.h>
#define key_slice_length 15
typedef uint64_t key_slice_type; typedef uint8_t key_length_type;
typedef struct { uint64_t body_; } permutation;
typedef struct { uintptr_t child_or_v_; } link_or_value;
struct border_node;
typedef struct base_node { key_slice_type key_slice_[15]; struct base_node* parent_; uint64_t version_; key_length_type key_length_[15]; int kind; } base_node;
typedef struct border_node { base_node base; permutation permutation_; link_or_value lv_[15]; struct border_node* prev_; struct border_node* next_; } border_node;
#define kChildFlag (2UL<<62)
#define kValPtrFlag (1UL<<62)
#define AT(a,i,n) (*( __CPROVER_assert((size_t)(i)<(size_t)(n),"std::array::at in bounds"), &(a)[i]))
static size_t perm_get_index_of_rank(permutation*p,size_t rank){ uint64_t per=p->body_; per>>=4; if(rank!=0) per >>= 4*rank; return per&0xF; }
static void perm_delete_rank(permutation* self, size_t rank){
        uint64_t per_body = self->body_; uint64_t left=0; uint64_t cnk = per_body & 0xF;
        if (rank == cnk - 1 || rank == key_slice_length - 1) { left = 0; } else { left = (per_body >> (4 * (rank + 2))) << (4 * (rank + 1)); }
        uint64_t right=0; if (rank == 0) { right = 0; } else { right = (per_body << (4 * (key_slice_length - rank))) >> (4 * (key_slice_length - rank)); }
        uint64_t final = left | right; final &= ~0xFUL; cnk--; final |= cnk; self->body_=final; }
static void perm_split_dest(permutation* self, size_t num){ uint64_t body=0; for(size_t i=1;i<num;++i){ body |= i << (4*(i+1)); } body |= num; self->body_=body; }
static base_node* lv_get_next_layer(link_or_value* s){ uintptr_t p=s->child_or_v_; if((p&kChildFlag)==0) return NULL; return (base_node*)(p & ~kChildFlag); }
static void border_init_border_pos(border_node* b, size_t pos){ AT(b->base.key_slice_,pos,15)=0; AT(b->base.key_length_,pos,15)=0; AT(b->lv_,pos,15).child_or_v_=kValPtrFlag; }

/* the move loop of border_split, verbatim modulo syntax */
void border_split_move(border_node* border, border_node* new_border){
    size_t remaining_size = key_slice_length / 2 + 1;
    size_t index_ctr = 0;
    for (size_t i = remaining_size; i < key_slice_length; ++i) {
        size_t src_index = perm_get_index_of_rank(&border->permutation_, remaining_size);
        AT(new_border->base.key_slice_,index_ctr,15) = AT(border->base.key_slice_,src_index,15);
        AT(new_border->base.key_length_,index_ctr,15) = AT(border->base.key_length_,src_index,15);
        AT(new_border->lv_,index_ctr,15) = AT(border->lv_,src_index,15);
        base_node* nl = lv_get_next_layer(&AT(border->lv_,src_index,15));
        if (nl != NULL) { nl->parent_ = (base_node*)new_border; }
        ++index_ctr;
        border_init_border_pos(border, src_index);
        perm_delete_rank(&border->permutation_, remaining_size);
    }
    perm_split_dest(&new_border->permutation_, key_slice_length - remaining_size);
}
#define S_AT(b,r) (((b) >> (4*((r)+1))) & 0xF)
static bool S_perm_valid(uint64_t b){ unsigned n=b&0xF; unsigned seen=0; for(unsigned r=0;r<15;r++){ if(r<n){ unsigned s=S_AT(b,r); if(s>=15) return false; if(seen&(1u<<s)) return false; seen|=1u<<s; } } return true; }
void h(void){ border_node b, nb; unsigned r; 
  __CPROVER_assume(S_perm_valid(b.permutation_.body_) && (b.permutation_.body_&0xF)==15 && r<15);
  /* no next-layer children in this probe: all lv are values */
  for(unsigned q=0;q<15;q++) __CPROVER_assume((b.lv_[q].child_or_v_ & kChildFlag)==0);
  border_node old=b; unsigned s=S_AT(old.permutation_.body_,r);
  border_split_move(&b,&nb);
  __CPROVER_assert((b.permutation_.body_&0xF)==8 && (nb.permutation_.body_&0xF)==7,"sizes 8/7");
  if(r<8){ unsigned s2=S_AT(b.permutation_.body_,r); __CPROVER_assert(s2==s,"left keeps slot");
     __CPROVER_assert(b.base.key_slice_[s]==old.base.key_slice_[s] && b.base.key_length_[s]==old.base.key_length_[s] && b.lv_[s].child_or_v_==old.lv_[s].child_or_v_,"left entry unchanged"); }
  else { unsigned t=S_AT(nb.permutation_.body_,r-8); __CPROVER_assert(t==r-8,"right identity perm");
     __CPROVER_assert(nb.base.key_slice_[t]==old.base.key_slice_[s] && nb.base.key_length_[t]==old.base.key_length_[s] && nb.lv_[t].child_or_v_==old.lv_[s].child_or_v_,"moved entry equal");
     __CPROVER_assert(b.base.key_slice_[s]==0 && b.base.key_length_[s]==0 && b.lv_[s].child_or_v_==kValPtrFlag,"source slot cleared"); }
}
