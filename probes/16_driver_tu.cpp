#include "kvs.h"
namespace yakushima {
// explicit instantiations so that template bodies appear instantiated in the AST
template status put<char>(Token, tree_instance*, std::string_view, char*, bool, value_length_type, char**, value_align_type, inserted_node_info*);
template status get<char>(tree_instance*, std::string_view, std::pair<char*, std::size_t>&, std::pair<node_version64_body, node_version64*>*);
template status scan<char>(tree_instance*, std::string_view, scan_endpoint, std::string_view, scan_endpoint, std::vector<std::tuple<std::string, char*, std::size_t>>&, std::vector<std::pair<node_version64_body, node_version64*>>*, std::size_t, bool);
}
