int g_cas_success; node_version64_body g_cas_old, g_cas_new, g_last_load;
node_version64_body nondet_nvb(void); _Bool nondet_bool(void);
static node_version64_body Y_LOAD(const node_version64_body* loc){ node_version64_body v = nondet_nvb(); g_last_load=v; return v; }
static bool Y_CAS_WEAK(node_version64_body* loc, node_version64_body* expected, node_version64_body desired){
  if (nondet_bool()) { g_cas_success++; g_cas_old=*expected; g_cas_new=desired; *loc=desired; return true; }
  *expected = nondet_nvb(); return false; }
