/* THROWAWAY hand translation of border_split (border_helper.h:142-319) to measure dfcc scaling.
   Parent case P0 (root) and PIn (interior parent, not full) selectable; lv values only (no link children). */
#include <stdint.h>
#include <stdbool.h>
#include <stddef.h>
#include <string.h>
#include <stdlib.h>
#define key_slice_length 15
typedef uint64_t key_slice_type; typedef uint8_t key_length_type;
typedef struct { uint32_t vinsert_delete:29; uint32_t locked:1; uint32_t inserting_deleting:1; uint32_t splitting:1;
  uint32_t vsplit:29; uint32_t deleted:1; uint32_t root:1; uint32_t border:1; } nvb;
typedef struct { uint64_t body_; } permutation;
typedef struct { uintptr_t child_or_v_; } link_or_value;
typedef struct base_node { key_slice_type key_slice_[15]; struct base_node* parent_; nvb version_; key_length_type key_length_[15]; int kind; } base_node;
typedef struct border_node { base_node base; permutation permutation_; link_or_value lv_[15]; struct border_node* prev_; struct border_node* next_; } border_node;
typedef struct interior_node { base_node base; uint8_t n_keys_; base_node* children[16]; } interior_node;
typedef struct { base_node* root_; bool root_lock_; } tree_instance;
typedef struct { nvb* modified_nvp; nvb* created_nvp; } inserted_node_info;
#define kChildFlag (2UL<<62)
#define kValPtrFlag (1UL<<62)
#define AT(a,i,n) (*( __CPROVER_assert((size_t)(i)<(size_t)(n),"std::array::at in bounds"), &(a)[i]))
int g_locks; int g_log_error;
/* ---- callees by contract ---- */
void version_unlock(base_node* self)
__CPROVER_requires(self->version_.locked)
__CPROVER_assigns(self->version_, g_locks)
__CPROVER_ensures(self->version_.locked==0 && self->version_.inserting_deleting==0 && self->version_.splitting==0)
__CPROVER_ensures(self->version_.vinsert_delete == ((__CPROVER_old(self->version_.vinsert_delete) + (__CPROVER_old(self->version_.inserting_deleting)?1u:0u)) & 0x1fffffffu))
__CPROVER_ensures(self->version_.vsplit == ((__CPROVER_old(self->version_.vsplit) + (__CPROVER_old(self->version_.splitting)?1u:0u)) & 0x1fffffffu))
__CPROVER_ensures(self->version_.deleted==__CPROVER_old(self->version_.deleted) && self->version_.root==__CPROVER_old(self->version_.root) && self->version_.border==__CPROVER_old(self->version_.border))
__CPROVER_ensures(g_locks==__CPROVER_old(g_locks)-1)
;
void node_lock(base_node* self)
__CPROVER_requires(!self->version_.locked)
__CPROVER_assigns(self->version_, g_locks)
__CPROVER_ensures(self->version_.locked==1 && g_locks==__CPROVER_old(g_locks)+1)
__CPROVER_ensures(self->version_.vinsert_delete==__CPROVER_old(self->version_.vinsert_delete) && self->version_.vsplit==__CPROVER_old(self->version_.vsplit) && self->version_.inserting_deleting==__CPROVER_old(self->version_.inserting_deleting) && self->version_.splitting==__CPROVER_old(self->version_.splitting) && self->version_.deleted==__CPROVER_old(self->version_.deleted) && self->version_.root==__CPROVER_old(self->version_.root) && self->version_.border==__CPROVER_old(self->version_.border))
;
/* lock_parent, sequential mode */
base_node* lock_parent(base_node* self, tree_instance* ti)
__CPROVER_requires(self->parent_==NULL ? (ti->root_==self && !ti->root_lock_) : !self->parent_->version_.locked)
__CPROVER_assigns(ti->root_lock_, g_locks; self->parent_!=NULL: self->parent_->version_)
__CPROVER_ensures(__CPROVER_return_value==self->parent_)
__CPROVER_ensures(g_locks==__CPROVER_old(g_locks)+1)
__CPROVER_ensures(self->parent_==NULL ==> ti->root_lock_)
__CPROVER_ensures(self->parent_!=NULL ==> (self->parent_->version_.locked && self->parent_->version_.vinsert_delete==__CPROVER_old(self->parent_->version_.vinsert_delete) && self->parent_->version_.inserting_deleting==__CPROVER_old(self->parent_->version_.inserting_deleting)&& self->parent_->version_.splitting==__CPROVER_old(self->parent_->version_.splitting) && self->parent_->version_.vsplit==__CPROVER_old(self->parent_->version_.vsplit)))
;
/* ---- small real helpers (inlined, would be emitted) ---- */
static size_t perm_get_index_of_rank(permutation*p,size_t rank){ uint64_t per=p->body_; per>>=4; if(rank!=0) per >>= 4*rank; return per&0xF; }
static void perm_delete_rank(permutation* self, size_t rank){
        uint64_t per_body = self->body_; uint64_t left=0; uint64_t cnk = per_body & 0xF;
        if (rank == cnk - 1 || rank == key_slice_length - 1) { left = 0; } else { left = (per_body >> (4 * (rank + 2))) << (4 * (rank + 1)); }
        uint64_t right=0; if (rank == 0) { right = 0; } else { right = (per_body << (4 * (key_slice_length - rank))) >> (4 * (key_slice_length - rank)); }
        uint64_t final = left | right; final &= ~0xFUL; cnk--; final |= cnk; self->body_=final; }
static void perm_insert_rank(permutation* self, size_t rank, size_t pos){
        uint64_t per_body = self->body_; uint64_t cnk = per_body & 0xF; ++cnk;
        uint64_t target = pos << (4 * (rank + 1)); uint64_t left=0;
        if (rank == cnk - 1) { left = 0; } else { left = (per_body >> (4 * (rank + 1))) << (4 * (rank + 2)); }
        uint64_t right=0; if (rank == 0) { right = 0; } else { right = (per_body << (4 * (key_slice_length - rank))) >> (4 * (key_slice_length - rank)); }
        uint64_t final = left | target | right; final &= ~0xFUL; final |= cnk; self->body_=final; }
static size_t perm_get_empty_slot(permutation* self){ uint64_t per_body=self->body_; size_t cnk=per_body&0xF; if(cnk==0) return 0; unsigned bs=0;
  for(size_t i=0;i<cnk;++i){ per_body>>=4; bs|=1u<<(per_body&0xF);} for(size_t i=0;i<15;++i){ if(!(bs&(1u<<i))) return i; } g_log_error=1; return 0; }
static void perm_split_dest(permutation* self, size_t num){ uint64_t body=0; for(size_t i=1;i<num;++i){ body |= i << (4*(i+1)); } body |= num; self->body_=body; }
static base_node* lv_get_next_layer(link_or_value* s){ uintptr_t p=s->child_or_v_; if((p&kChildFlag)==0) return NULL; return (base_node*)(p & ~kChildFlag); }
static void border_init_border_pos(border_node* b, size_t pos){ AT(b->base.key_slice_,pos,15)=0; AT(b->base.key_length_,pos,15)=0; AT(b->lv_,pos,15).child_or_v_=kValPtrFlag; }
static border_node* new_border_node(void){ border_node* b=malloc(sizeof(border_node)); __CPROVER_assume(b!=NULL); memset(b,0,sizeof(*b)); for(size_t i=0;i<15;i++) b->lv_[i].child_or_v_=kValPtrFlag; b->base.kind=1; return b; }
static interior_node* new_interior_node(void){ interior_node* n=malloc(sizeof(interior_node)); __CPROVER_assume(n!=NULL); memset(n,0,sizeof(*n)); n->base.kind=2; return n; }
static void init_border(border_node* b){ memset(&b->base.version_,0,8); b->base.parent_=NULL; for(size_t i=0;i<15;i++){ b->base.key_slice_[i]=0; b->base.key_length_[i]=0; b->lv_[i].child_or_v_=kValPtrFlag; } b->base.version_.root=1; b->base.version_.border=1; b->permutation_.body_=0; b->next_=NULL; b->prev_=NULL; }
/* value-only insert_lv_at (key_view.size()<=8 in this probe) */
static void insert_lv_at(border_node* self, size_t index, key_slice_type ks, key_length_type kl, uintptr_t new_value, size_t rank){
  AT(self->base.key_slice_,index,15)=ks; AT(self->base.key_length_,index,15)=kl; AT(self->lv_,index,15).child_or_v_=new_value; perm_insert_rank(&self->permutation_,rank,index); }
static void create_interior_parent_of_border(border_node* left, border_node* right, interior_node** new_parent){
  left->base.version_.root=0; right->base.version_.root=0;
  interior_node* ni=new_interior_node(); memset(&ni->base.version_,0,8); ni->base.parent_=NULL; ni->n_keys_=0; for(size_t i=0;i<16;i++) ni->children[i]=NULL;
  ni->base.version_.root=1; ni->base.version_.inserting_deleting=1; node_lock(&ni->base);
  ni->base.key_slice_[0]=right->base.key_slice_[0]; ni->base.key_length_[0]=right->base.key_length_[0];
  ni->children[0]=(base_node*)left; ni->children[1]=(base_node*)right; ni->n_keys_++;
  left->base.parent_=(base_node*)ni; right->base.parent_=(base_node*)ni; *new_parent=ni; }

/* ghost */
unsigned g_r; border_node* g_nb; interior_node* g_ni;
#define S_AT(b,r) (((b) >> (4*((r)+1))) & 0xF)
static bool S_perm_valid(uint64_t b){ unsigned n=b&0xF; unsigned seen=0; for(unsigned r=0;r<15;r++){ if(r<n){ unsigned s=S_AT(b,r); if(s>=15) return false; if(seen&(1u<<s)) return false; seen|=1u<<s; } } return true; }
#define NLEN(l) ((l)>8?9:(l))
static int S_cmp(uint64_t as, unsigned al, uint64_t bs, unsigned bl){ uint64_t a=__builtin_bswap64(as), b=__builtin_bswap64(bs);
  if(a<b) return -1; if(a>b) return 1; al=NLEN(al); bl=NLEN(bl); return al<bl?-1:(al>bl?1:0); }
static bool S_valid_entry(uint64_t s, unsigned l){ if(l>9) return false; if(l>=8) return true; return (s >> (8*l))==0; }
static bool S_rank_consistent(border_node* b, uint64_t ks, unsigned kl, size_t rank){ uint64_t p=b->permutation_.body_;
  for(unsigned q=0;q<15;q++){ unsigned t=S_AT(p,q); if(!S_valid_entry(b->base.key_slice_[t],b->base.key_length_[t])) return false;
    int c=S_cmp(b->base.key_slice_[t],b->base.key_length_[t],ks,kl); if(q<rank && c>=0) return false; if(q>=rank && c<=0) return false; } return true; }
static bool S_all_values(border_node* b){ for(unsigned q=0;q<15;q++) if(b->lv_[q].child_or_v_ & kChildFlag) return false; return true; }

void border_split(tree_instance* ti, border_node* border, key_slice_type key_slice, key_length_type key_length, uintptr_t new_value, inserted_node_info* info, size_t rank)
__CPROVER_requires(__CPROVER_is_fresh(ti,sizeof(*ti)) && __CPROVER_is_fresh(border,sizeof(*border)) && __CPROVER_is_fresh(info,sizeof(*info)))
__CPROVER_requires(border->base.parent_==NULL && ti->root_==(base_node*)border && !ti->root_lock_ && border->next_==NULL)
__CPROVER_requires(border->base.version_.locked && border->base.version_.inserting_deleting && !border->base.version_.splitting && border->base.version_.border && g_locks==1 && g_log_error==0)
__CPROVER_requires(S_perm_valid(border->permutation_.body_) && (border->permutation_.body_&0xF)==15 && S_all_values(border))
__CPROVER_requires(rank<=15 && key_length<=8 && g_r<15 && (new_value & kChildFlag)==0)
__CPROVER_requires(S_valid_entry(key_slice,key_length) && S_rank_consistent(border,key_slice,key_length,rank))
__CPROVER_assigns(__CPROVER_object_whole(border), __CPROVER_object_whole(ti), __CPROVER_object_whole(info), g_locks, g_log_error, g_nb, g_ni)
__CPROVER_ensures(g_locks==0 && !g_log_error && !ti->root_lock_)
__CPROVER_ensures(info->modified_nvp==&border->base.version_ && info->created_nvp==&g_nb->base.version_)
__CPROVER_ensures(border->next_==g_nb && g_nb->prev_==border && g_nb->next_==NULL)
__CPROVER_ensures(ti->root_==(base_node*)g_ni && g_ni->n_keys_==1 && g_ni->children[0]==(base_node*)border && g_ni->children[1]==(base_node*)g_nb && border->base.parent_==(base_node*)g_ni && g_nb->base.parent_==(base_node*)g_ni)
__CPROVER_ensures(!border->base.version_.locked && !g_nb->base.version_.locked && !g_ni->base.version_.locked && !border->base.version_.root && !g_nb->base.version_.root && g_ni->base.version_.root)
__CPROVER_ensures(border->base.version_.vsplit==((__CPROVER_old(border->base.version_.vsplit)+1)&0x1fffffffu) && border->base.version_.vinsert_delete==((__CPROVER_old(border->base.version_.vinsert_delete)+1)&0x1fffffffu))
__CPROVER_ensures(g_nb->base.version_.vsplit==border->base.version_.vsplit && g_nb->base.version_.vinsert_delete==border->base.version_.vinsert_delete)
__CPROVER_ensures(((border->permutation_.body_&0xF)+(g_nb->permutation_.body_&0xF))==16)
__CPROVER_ensures(g_ni->base.key_slice_[0]==g_nb->base.key_slice_[0] && g_ni->base.key_length_[0]==g_nb->base.key_length_[0])
__CPROVER_ensures(rank<=8 ==> ((border->permutation_.body_&0xF)==9 && border->base.key_slice_[S_AT(border->permutation_.body_,rank)]==key_slice && border->base.key_length_[S_AT(border->permutation_.body_,rank)]==key_length && border->lv_[S_AT(border->permutation_.body_,rank)].child_or_v_==new_value))
__CPROVER_ensures(rank>8 ==> ((g_nb->permutation_.body_&0xF)==8 && g_nb->base.key_slice_[S_AT(g_nb->permutation_.body_,rank-8)]==key_slice && g_nb->base.key_length_[S_AT(g_nb->permutation_.body_,rank-8)]==key_length && g_nb->lv_[S_AT(g_nb->permutation_.body_,rank-8)].child_or_v_==new_value))
{
    border->base.version_.splitting=1;
    border_node* new_border = new_border_node(); g_nb=new_border;
    init_border(new_border);
    new_border->next_=border->next_; new_border->prev_=border;
    if (info != NULL) { info->modified_nvp=&border->base.version_; info->created_nvp=&new_border->base.version_; }
    new_border->base.version_=border->base.version_; g_locks++; /* new border initially locked (copy of a locked word) */
    border->next_=new_border;
    if (new_border->next_ != NULL) { new_border->next_->prev_=new_border; }
    size_t remaining_size = key_slice_length / 2 + 1;
    size_t index_ctr = 0;
    for (size_t i = remaining_size; i < key_slice_length; ++i) {
        size_t src_index = perm_get_index_of_rank(&border->permutation_, remaining_size);
        AT(new_border->base.key_slice_,index_ctr,15) = AT(border->base.key_slice_,src_index,15);
        AT(new_border->base.key_length_,index_ctr,15) = AT(border->base.key_length_,src_index,15);
        AT(new_border->lv_,index_ctr,15) = AT(border->lv_,src_index,15);
        base_node* nl = lv_get_next_layer(&AT(border->lv_,src_index,15));
        if (nl != NULL) { nl->parent_ = (base_node*)new_border; }
        ++index_ctr;
        border_init_border_pos(border, src_index);
        perm_delete_rank(&border->permutation_, remaining_size);
    }
    perm_split_dest(&new_border->permutation_, key_slice_length - remaining_size);
    key_length_type m = key_length; if(new_border->base.key_length_[0]<m) m=new_border->base.key_length_[0]; if(8<m) m=8;
    int ret_memcmp = memcmp(&key_slice, &new_border->base.key_slice_[0], m);
    if (key_length == 0 || ret_memcmp < 0 || (ret_memcmp == 0 && key_length < new_border->base.key_length_[0]) || (ret_memcmp == 0 && rank < remaining_size)) {
        insert_lv_at(border, perm_get_empty_slot(&border->permutation_), key_slice, key_length, new_value, rank);
    } else {
        insert_lv_at(new_border, perm_get_empty_slot(&new_border->permutation_), key_slice, key_length, new_value, rank - remaining_size);
    }
    base_node* p = lock_parent(&border->base, ti);
    if (p == NULL) {
        interior_node* pi=NULL;
        create_interior_parent_of_border(border, new_border, &pi); g_ni=pi;
        version_unlock(&border->base);
        version_unlock(&new_border->base);
        ti->root_=(base_node*)pi;
        version_unlock(&pi->base);
        ti->root_lock_=false; g_locks--;
        return;
    }
    g_log_error=1; /* other parent cases not in this probe */
}
void h(void){ tree_instance* ti; border_node* b; uint64_t ks; uint8_t kl; uintptr_t v; inserted_node_info* info; size_t rank; border_split(ti,b,ks,kl,v,info,rank); }
