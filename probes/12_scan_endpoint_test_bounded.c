#include <stdint.h>
#include <stdbool.h>
#include <stddef.h>
#include <string.h>
#define MAXK 24
typedef struct { const unsigned char* data; size_t size; } sv;
/* spec: lexicographic compare of byte strings, prefix first */
static int S_lex(const unsigned char* a,size_t an,const unsigned char* b,size_t bn){ for(size_t i=0;i<MAXK;i++){ if(i>=an||i>=bn) break; if(a[i]!=b[i]) return a[i]<b[i]?-1:1; } return an<bn?-1:(an>bn?1:0); }
static int y_memcmp(const void* a,const void* b,size_t n){ const unsigned char*p=a,*q=b; for(size_t k=0;k<MAXK;k++){ if(k>=n) break; if(p[k]!=q[k]) return p[k]<q[k]?-1:1; } return 0; }
/* fragment of scan_border value branch (scan_helper.h:368-399), verbatim modulo syntax: returns 0 skip(left), 1 in range, 2 passed right end */
enum ep { EXCLUSIVE, INCLUSIVE, INF };
int entry_test(sv l_key, enum ep l_end, sv r_key, enum ep r_end, uint64_t ks, uint8_t kl, const unsigned char* full_key, size_t full_key_size){
  if (l_end == INF && r_end == INF) return 1;
  if (l_end != INF) {
      uint64_t l_key_slice=0;
      if (l_key.size!=0) memcpy(&l_key_slice, l_key.data, l_key.size < 8 ? l_key.size : 8);
      int l_cmp = y_memcmp(&l_key_slice, &ks, 8);
      if (l_cmp > 0 || (l_cmp == 0 && (l_key.size > kl || (l_key.size == kl && l_end == EXCLUSIVE)))) return 0;
  }
  if (r_end == INF) return 1;
  int r_cmp = y_memcmp(r_key.data, full_key, r_key.size < full_key_size ? r_key.size : full_key_size);
  if (r_cmp > 0 || (r_cmp == 0 && (r_key.size > full_key_size || (r_key.size == full_key_size && r_end == INCLUSIVE)))) return 1;
  return 2; }
void h(void){ unsigned char lk[MAXK], rk[MAXK], fk[MAXK]; size_t ln, rn, pn; enum ep le, re; uint64_t ks; uint8_t kl;
  __CPROVER_assume(ln<=MAXK && rn<=MAXK && (le==EXCLUSIVE||le==INCLUSIVE||le==INF) && (re==EXCLUSIVE||re==INCLUSIVE||re==INF) && kl<=8 && pn<=MAXK-8);
  __CPROVER_assume(kl>=8 || (ks>>(8*kl))==0);
  /* in this layer l_key is the *relative* left key (suffix after the prefix), r_key absolute; full_key = prefix ++ slice bytes */
  size_t fn=pn+kl; for(size_t i=0;i<8;i++) if(i<kl) fk[pn+i]=((unsigned char*)&ks)[i];
  sv l={lk,ln}, r={rk,rn};
  int d=entry_test(l,le,r,re,ks,kl,fk,fn);
  /* spec: relative key of entry = slice bytes (kl) ; left test on relative, right test on absolute */
  unsigned char ek[8]; memcpy(ek,&ks,8);
  int cl = S_lex(ek,kl,lk,ln); /* entry vs l_key (relative) — only first 8 bytes of l_key matter when entry is terminal (kl<=8) */
  bool left_ok = le==INF || cl>0 || (cl==0 && le==INCLUSIVE);
  int cr = S_lex(fk,fn,rk,rn);
  bool right_ok = re==INF || cr<0 || (cr==0 && re==INCLUSIVE);
  if(d==1) __CPROVER_assert(left_ok && right_ok,"reported in range => in interval");
  if(left_ok && right_ok) __CPROVER_assert(d==1,"in interval => reported");
  if(d==0) __CPROVER_assert(!left_ok,"skipped => left of interval");
  if(d==2) __CPROVER_assert(left_ok && !right_ok,"stop => beyond right end");
}
