#include <stdint.h>
#include <stdbool.h>
#include <string.h>
#include <stddef.h>
typedef struct { 
  uint32_t vinsert_delete:29; uint32_t locked:1; uint32_t inserting_deleting:1; uint32_t splitting:1;
  uint32_t vsplit:29; uint32_t deleted:1; uint32_t root:1; uint32_t border:1; } nvb;
_Static_assert(sizeof(nvb)==8,"sz");
typedef struct { nvb body_; } nv64;

/* ghost state recorded by the atomic stubs */
int g_cas_success; nvb g_cas_old, g_cas_new; int g_loads;
nvb nondet_nvb(void); _Bool nondet_bool(void);
/* atomic load: under interference any value may be observed, except that a thread
   observes its own last write if no one else may write (ownership flag) */
static nvb ATOMIC_LOAD(nv64* self){ g_loads++; nvb v = nondet_nvb(); return v; }
static bool ATOMIC_CAS_WEAK(nv64* self, nvb* expected, nvb desired){
  if (nondet_bool()) { g_cas_success++; g_cas_old=*expected; g_cas_new=desired; self->body_=desired; return true; }
  *expected = nondet_nvb(); return false; }

static bool eq(nvb a, nvb b){ return memcmp(&a,&b,sizeof(nvb))==0; }

void nv64_unlock(nv64* self)
__CPROVER_requires(__CPROVER_is_fresh(self,sizeof(*self)))
__CPROVER_assigns(self->body_, g_cas_success, g_cas_old, g_cas_new, g_loads)
__CPROVER_requires(g_cas_success==0)
__CPROVER_ensures(g_cas_success==1)
__CPROVER_ensures(g_cas_new.locked==0 && g_cas_new.inserting_deleting==0 && g_cas_new.splitting==0)
__CPROVER_ensures(g_cas_new.vinsert_delete == ((g_cas_old.vinsert_delete + (g_cas_old.inserting_deleting?1u:0u)) & 0x1fffffffu))
__CPROVER_ensures(g_cas_new.vsplit == ((g_cas_old.vsplit + (g_cas_old.splitting?1u:0u)) & 0x1fffffffu))
__CPROVER_ensures(g_cas_new.deleted==g_cas_old.deleted && g_cas_new.root==g_cas_old.root && g_cas_new.border==g_cas_old.border)
{
    nvb expected = ATOMIC_LOAD(self);
    nvb desired = {0};
    for (;;) 
    __CPROVER_assigns(expected, desired, self->body_, g_cas_success, g_cas_old, g_cas_new)
    __CPROVER_loop_invariant(g_cas_success==0)
    {
        desired = expected;
        if (desired.inserting_deleting) { ++desired.vinsert_delete; desired.inserting_deleting=false; }
        if (desired.splitting) { ++desired.vsplit; desired.splitting=false; }
        desired.locked=false;
        if (ATOMIC_CAS_WEAK(self,&expected,desired)) break;
    }
}
void h_unlock(void){ nv64* p; nv64_unlock(p); }
