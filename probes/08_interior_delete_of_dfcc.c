#include <stdint.h>
#include <stdbool.h>
#include <stddef.h>
#include <string.h>
#include <stdlib.h>
typedef uint64_t key_slice_type; typedef uint8_t key_length_type;
typedef struct { uint32_t vinsert_delete:29; uint32_t locked:1; uint32_t inserting_deleting:1; uint32_t splitting:1;
  uint32_t vsplit:29; uint32_t deleted:1; uint32_t root:1; uint32_t border:1; } nvb;
typedef struct base_node { key_slice_type key_slice_[15]; struct base_node* parent_; nvb version_; key_length_type key_length_[15]; int kind; } base_node;
typedef struct interior_node { base_node base; uint8_t n_keys_; base_node* children[16]; } interior_node;
#define AT(a,i,n) (*( __CPROVER_assert((size_t)(i)<(size_t)(n),"std::array::at in bounds"), &(a)[i]))
int g_locks_held; int g_log_error;
/* callees replaced by contract */
void base_node_version_unlock(base_node* self)
__CPROVER_requires(__CPROVER_is_fresh(self,sizeof(*self)) || 1)
__CPROVER_requires(self->version_.locked)
__CPROVER_assigns(self->version_, g_locks_held)
__CPROVER_ensures(self->version_.locked==0 && self->version_.inserting_deleting==0 && self->version_.splitting==0)
__CPROVER_ensures(self->version_.vinsert_delete == ((__CPROVER_old(self->version_.vinsert_delete) + (__CPROVER_old(self->version_.inserting_deleting)?1u:0u)) & 0x1fffffffu))
__CPROVER_ensures(g_locks_held==__CPROVER_old(g_locks_held)-1)
;
static void set_version_inserting_deleting(base_node* self, bool tf){ self->version_.inserting_deleting=tf; }
static void shift_left_base_member(base_node* self, size_t start_pos, size_t shift_size){
  for(size_t k=start_pos;k<15;++k){ AT(self->key_slice_,k-shift_size,15)=AT(self->key_slice_,k,15); AT(self->key_length_,k-shift_size,15)=AT(self->key_length_,k,15);} }
static void set_child_at(interior_node* self,size_t i, base_node* c){ AT(self->children,i,16)=c; }
static base_node* get_child_at(interior_node* self,size_t i){ return AT(self->children,i,16); }
static void shift_left_children(interior_node* self,size_t start_pos,size_t shift_size){ for(size_t i=start_pos;i<16;++i){ set_child_at(self,i-shift_size,get_child_at(self,i)); } }
static void set_key(base_node* self,size_t i,key_slice_type s,key_length_type l){ AT(self->key_slice_,i,15)=s; AT(self->key_length_,i,15)=l; }

static bool S_only_at(interior_node* n, base_node* c, size_t pos){ for(size_t q=0;q<16;q++){ if(q<=n->n_keys_){ if((n->children[q]==c)!=(q==pos)) return false; } } return true; }
/* ghost */
size_t g_w; size_t g_pos; /* witness child index, position of child */
#define DROPPED (g_pos==0?0:g_pos-1)
void interior_node_delete_of_nkgt1(interior_node* self, base_node* child)
__CPROVER_requires(__CPROVER_is_fresh(self,sizeof(*self)))
__CPROVER_requires(g_log_error==0 && self->n_keys_>1 && self->n_keys_<=15 && self->base.version_.locked && g_locks_held==1)
__CPROVER_requires(g_w<=self->n_keys_ && g_pos<=self->n_keys_ && self->children[g_pos]==child)
__CPROVER_requires(S_only_at(self,child,g_pos))
__CPROVER_assigns(self->base.key_slice_, self->base.key_length_, self->base.version_, self->n_keys_, self->children, g_locks_held, g_log_error)
__CPROVER_ensures(g_locks_held==0 && !self->base.version_.locked && !g_log_error)
__CPROVER_ensures(self->n_keys_==__CPROVER_old(self->n_keys_)-1)
__CPROVER_ensures(g_w<g_pos ==> self->children[g_w]==__CPROVER_old(self->children[g_w]))
__CPROVER_ensures(g_w>g_pos ==> self->children[g_w-1]==__CPROVER_old(self->children[g_w]))
__CPROVER_ensures((g_w<__CPROVER_old(self->n_keys_) && g_w<DROPPED) ==> (self->base.key_slice_[g_w]==__CPROVER_old(self->base.key_slice_[g_w]) && self->base.key_length_[g_w]==__CPROVER_old(self->base.key_length_[g_w])))
__CPROVER_ensures((g_w<__CPROVER_old(self->n_keys_) && g_w>DROPPED) ==> (self->base.key_slice_[g_w-1]==__CPROVER_old(self->base.key_slice_[g_w]) && self->base.key_length_[g_w-1]==__CPROVER_old(self->base.key_length_[g_w])))
{
    set_version_inserting_deleting(&self->base,true);
    size_t n_key = self->n_keys_;
    for (size_t i = 0; i <= n_key; ++i) {
        if (get_child_at(self,i) == child) {
            if (n_key == 1) { g_log_error=1; }
            else {
                if (i == 0) { shift_left_base_member(&self->base,1,1); shift_left_children(self,1,1); set_child_at(self,n_key,NULL); }
                else if (i == n_key) { set_child_at(self,i,NULL); }
                else { shift_left_base_member(&self->base,i,1); shift_left_children(self,i+1,1); set_child_at(self,n_key,NULL); }
                set_key(&self->base,n_key-1,0,0);
                self->n_keys_--;
                base_node_version_unlock(&self->base);
            }
            return;
        }
    }
}
void h(void){ interior_node* n; base_node* c; 
  interior_node_delete_of_nkgt1(n,c); }
/* plain harness (no dfcc) for the functional postcondition */
void h2(void){ interior_node n; base_node* c; size_t w, pos; 
  __CPROVER_assume(n.n_keys_>1 && n.n_keys_<=15 && pos<=n.n_keys_ && w<=n.n_keys_);
  for(unsigned q=0;q<16;q++) __CPROVER_assume( (q==pos) == (n.children[q]==c) || q>n.n_keys_ );
  __CPROVER_assume(n.children[pos]==c); n.base.version_.locked=1; g_locks_held=1;
  interior_node old=n;
  interior_node_delete_of_nkgt1(&n,c);
  __CPROVER_assert(n.n_keys_==old.n_keys_-1,"one fewer");
  /* children: w<pos keeps, w>pos shifts */
  if(w<pos) __CPROVER_assert(n.children[w]==old.children[w],"child below kept");
  if(w>pos) __CPROVER_assert(n.children[w-1]==old.children[w],"child above shifted");
  /* separators: key j separates child j and j+1. removing child pos: pos==0 drops key 0; else drops key pos-1 */
  size_t dropped = pos==0?0:pos-1;
  if(w<old.n_keys_){ if(w<dropped) __CPROVER_assert(n.base.key_slice_[w]==old.base.key_slice_[w] && n.base.key_length_[w]==old.base.key_length_[w],"key below kept");
                      if(w>dropped) __CPROVER_assert(n.base.key_slice_[w-1]==old.base.key_slice_[w] && n.base.key_length_[w-1]==old.base.key_length_[w],"key above shifted"); }
}
