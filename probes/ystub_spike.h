#include <stdint.h>
#include <stdbool.h>
#include <stddef.h>
#define Y_MO 0
#define Y_PAUSE() ((void)0)
