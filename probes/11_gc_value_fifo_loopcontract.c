#include <stdint.h>
#include <stdbool.h>
#include <stddef.h>
typedef uint64_t Epoch;
typedef struct { Epoch f0; void* f1; size_t f2; size_t f3; } tup4;
/* ghost FIFO model of concurrent_queue<tuple<Epoch,void*,size_t,align_val_t>> */
#define QMAX 1000000
typedef struct { tup4* buf; size_t head, tail; } queue4;
_Bool nondet_bool(void);
static bool q_empty(queue4* q){ return q->head==q->tail; }
static bool q_try_pop(queue4* q, tup4* out){ if(q->head==q->tail) return false; if(nondet_bool()) return false; /* tbb may fail spuriously under contention */ *out=q->buf[q->head]; q->head++; return true; }
typedef struct { tup4 cache_value_container_; queue4 value_container_; } garbage_collection;
Epoch gc_epoch_; 
/* ledger */
size_t g_head0; size_t g_frees; Epoch g_G; bool g_bad_free; size_t g_w; bool g_w_freed; 
static Epoch get_gc_epoch(void){ return gc_epoch_; }
static void OPERATOR_DELETE(void* p, size_t sz, size_t al, Epoch tag_of_elem, size_t idx){ g_frees++; if(!(tag_of_elem<g_G)) g_bad_free=true; if(idx==g_w) { if(g_w_freed) g_bad_free=true; g_w_freed=true; } }
/* real body of gc_value (garbage_collection.h:81-106) modulo syntax; the two extra args of OPERATOR_DELETE are ghost */
void gc_value(garbage_collection* self)
{
    Epoch gc_epoch = get_gc_epoch(); g_G=gc_epoch;
    if (self->cache_value_container_.f1 != NULL) {
        if (self->cache_value_container_.f0 >= gc_epoch) { return; }
        OPERATOR_DELETE(self->cache_value_container_.f1, self->cache_value_container_.f2, self->cache_value_container_.f3, self->cache_value_container_.f0, (size_t)-1);
        self->cache_value_container_.f1 = NULL;
    }
    while (!q_empty(&self->value_container_))
    __CPROVER_assigns(self->value_container_.head, self->cache_value_container_, g_frees, g_bad_free, g_w_freed)
    __CPROVER_loop_invariant(self->value_container_.head<=self->value_container_.tail && self->cache_value_container_.f1==NULL && !g_bad_free)
    __CPROVER_loop_invariant(g_w_freed == (g_w < self->value_container_.head && g_w >= g_head0))
    {
        tup4 elem;
        if (!q_try_pop(&self->value_container_, &elem)) { continue; }
        if (elem.f0 >= gc_epoch) { self->cache_value_container_ = elem; return; }
        OPERATOR_DELETE(elem.f1, elem.f2, elem.f3, elem.f0, self->value_container_.head-1);
    }
}

void h(void){ garbage_collection gc; tup4 buf[16]; gc.value_container_.buf=buf; size_t n; __CPROVER_assume(n<=16);
  gc.value_container_.head=0; gc.value_container_.tail=n; g_head0=0; g_frees=0; g_bad_free=false; g_w_freed=false; __CPROVER_assume(g_w<16);
  for(unsigned i=0;i<16;i++) __CPROVER_assume(buf[i].f1!=NULL);
  tup4 cache0=gc.cache_value_container_; 
  gc_value(&gc);
  __CPROVER_assert(!g_bad_free,"every free has tag < gc epoch loaded at entry, none twice");
  size_t hd=gc.value_container_.head;
  /* popped elements: all freed except possibly the last one which is parked */
  if(gc.cache_value_container_.f1!=NULL && !(cache0.f1!=NULL && cache0.f0>=g_G)) { __CPROVER_assert(hd>=1 && gc.cache_value_container_.f1==buf[hd-1].f1 && gc.cache_value_container_.f0>=g_G,"parked element is the first ineligible one");
     __CPROVER_assert(g_w_freed == (g_w<hd-1),"every popped element before it freed exactly once, parked one not freed"); }
  if(gc.cache_value_container_.f1==NULL) { __CPROVER_assert(hd==n,"queue drained when nothing parked"); __CPROVER_assert(g_w_freed==(g_w<n),"all freed exactly once"); }
}
