#include <stdint.h>
#include <stdbool.h>
#include <stddef.h>
typedef struct { uint64_t begin_epoch_; bool running_; } thread_info;
uint64_t g_epoch; 
static bool gain_the_right(thread_info* self){ bool expected=self->running_; for(;;)
   __CPROVER_assigns(expected,self->running_) __CPROVER_loop_invariant(1)
   { if(expected) return false; /* CAS weak, sequential mode: may fail spuriously */
     _Bool spur=__VERIFIER_nondet__Bool(); if(!spur && self->running_==expected){ self->running_=true; return true; } expected=self->running_; } }
size_t g_j; /* ghost slot */
int assign_thread_info(thread_info* tab, size_t N, thread_info** token)
__CPROVER_requires(N>0 && N<=100000 && __CPROVER_is_fresh(tab,N*sizeof(thread_info)) && __CPROVER_is_fresh(token,sizeof(*token)))
__CPROVER_requires(g_j<N && g_epoch>=1)
__CPROVER_assigns(*token, __CPROVER_object_whole(tab))
__CPROVER_ensures(__CPROVER_return_value==0 ==> (*token>=tab && *token<tab+N && (*token)->running_ && (*token)->begin_epoch_==g_epoch && (*token)->begin_epoch_!=0))
__CPROVER_ensures((__CPROVER_return_value==0 && &tab[g_j]<*token) ==> __CPROVER_old(tab[g_j].running_))
__CPROVER_ensures((__CPROVER_return_value==0 && &tab[g_j]==*token) ==> !__CPROVER_old(tab[g_j].running_))
__CPROVER_ensures((__CPROVER_return_value==0 && &tab[g_j]!=*token) ==> (tab[g_j].running_==__CPROVER_old(tab[g_j].running_) && tab[g_j].begin_epoch_==__CPROVER_old(tab[g_j].begin_epoch_)))
__CPROVER_ensures(__CPROVER_return_value!=0 ==> (__CPROVER_old(tab[g_j].running_) && tab[g_j].running_ && tab[g_j].begin_epoch_==__CPROVER_old(tab[g_j].begin_epoch_)))
{
  bool old_j_running = tab[g_j].running_; uint64_t old_j_epoch = tab[g_j].begin_epoch_;
  for(size_t i=0;i<N;++i)
  __CPROVER_assigns(i, __CPROVER_object_whole(tab))
  __CPROVER_loop_invariant(i<=N)
  __CPROVER_loop_invariant(g_j<i ==> old_j_running)
  __CPROVER_loop_invariant(tab[g_j].running_==old_j_running && tab[g_j].begin_epoch_==old_j_epoch)
  __CPROVER_decreases(N-i)
  { thread_info* elem=&tab[i];
    if(gain_the_right(elem)){ elem->begin_epoch_=g_epoch; *token=elem; return 0; } }
  return 1;
}
void h(void){ thread_info* tab; size_t N; thread_info** tok; assign_thread_info(tab,N,tok); }
