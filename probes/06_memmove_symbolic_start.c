#include <stdint.h>
#include <stddef.h>
#include <string.h>
typedef struct { uint64_t key_slice_[15]; void* parent_; uint64_t version_; uint8_t key_length_[15]; } base_node;
void shift_right_base_member(base_node* self, size_t start, size_t shift_size){
  memmove(&self->key_slice_[start+shift_size], &self->key_slice_[start], sizeof(uint64_t)*(15-start-shift_size));
  memmove(&self->key_length_[start+shift_size], &self->key_length_[start], sizeof(uint8_t)*(15-start-shift_size)); }
void h(void){ base_node n; size_t start; unsigned k; __CPROVER_assume(start<14 && k<15);
  base_node old=n; shift_right_base_member(&n,start,1);
  if(k<=start) __CPROVER_assert(n.key_slice_[k]==old.key_slice_[k] && n.key_length_[k]==old.key_length_[k],"below unchanged");
  else __CPROVER_assert(n.key_slice_[k]==old.key_slice_[k-1] && n.key_length_[k]==old.key_length_[k-1],"above shifted");
  __CPROVER_assert(n.parent_==old.parent_ && n.version_==old.version_,"frame"); }
