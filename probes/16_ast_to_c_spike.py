#!/usr/bin/env python3
# THROWAWAY feasibility spike (not framework): emit C for selected yakushima methods from clang's JSON AST.
import json,sys,re
txt=open('/tmp/probe/all.json').read()
dec=json.JSONDecoder(); i=0; objs=[]
while i<len(txt):
    while i<len(txt) and txt[i].isspace(): i+=1
    if i>=len(txt): break
    o,j=dec.raw_decode(txt,i); objs.append(o); i=j
# index decls by id
byid={}
def index(n,parent=None):
    if isinstance(n,dict):
        if 'id' in n and 'kind' in n and n['kind'].endswith('Decl'): byid[n['id']]=(n,parent)
        p=n if n.get('kind') in ('CXXRecordDecl',) else parent
        for c in n.get('inner',[]): index(c,p)
for o in objs: index(o)
def rec(name):
    for o in objs:
        if o['kind']=='CXXRecordDecl' and o.get('name')==name and any(c.get('kind')=='FieldDecl' for c in o.get('inner',[])): return o
class Abort(Exception): pass
alias={}
def collect_alias(n):
    if isinstance(n,dict):
        if n.get('kind') in('TypeAliasDecl','TypedefDecl') and 'type' in n: alias[n['name']]=n['type'].get('desugaredQualType',n['type']['qualType'])
        for c in n.get('inner',[]): collect_alias(c)
for o in objs: collect_alias(o)
def ctype(t):
    q=t.get('desugaredQualType',t['qualType'])
    q=q.replace('const ','').replace('yakushima::','').strip()
    m={'unsigned int':'uint32_t','unsigned long':'uint64_t','bool':'bool','void':'void','int':'int','unsigned char':'uint8_t'}
    if q in m: return m[q]
    if q.endswith('*'): return ctype({'qualType':q[:-1].strip()})+'*'
    if q.startswith('std::atomic<'): return q[len('std::atomic<'):-1].replace('yakushima::','')
    last=q.split('::')[-1]
    if last in alias: return ctype({'qualType':alias[last]})
    if re.fullmatch(r'\w+',q): return q
    raise Abort('type '+q)
def kids(n): return [c for c in n.get('inner',[]) if not (c.get('kind') or '').endswith('Comment') and not (c.get('kind') or '').endswith('Attr')]
def owner_of(mid):
    d,p=byid[mid]; return p.get('name') if p else None
def expr(n):
    k=n.get('kind')
    if k in ('ImplicitCastExpr','ParenExpr','MaterializeTemporaryExpr','ExprWithCleanups','ConstantExpr'):
        e=expr(kids(n)[0]); return '('+e+')' if k=='ParenExpr' else e
    if k=='CXXThisExpr': return 'self'
    if k=='DeclRefExpr': 
        rd=n['referencedDecl']
        if rd['kind']=='EnumConstantDecl' and rd['name'].startswith('memory_order'): return 'Y_MO'
        return rd['name']
    if k=='IntegerLiteral': return n['value']+('u' if 'unsigned' in n['type']['qualType'] else '')
    if k=='CXXBoolLiteralExpr': return 'true' if n['value'] else 'false'
    if k=='MemberExpr':
        base=kids(n)[0]; b=expr(base)
        bt=base.get('type',{}).get('qualType','')
        arrow = n.get('isArrow')
        return f"{b}{'->' if arrow else '.'}{n['name']}"
    if k=='UnaryOperator':
        e=expr(kids(n)[0]); op=n['opcode']
        return f"({e}{op})" if n.get('isPostfix') else f"({op}{e})"
    if k=='BinaryOperator':
        a,b=kids(n); return f"({expr(a)} {n['opcode']} {expr(b)})"
    if k=='CXXConstructExpr':
        ks=kids(n)
        if not ks: return '('+ctype(n['type'])+'){0}'   # value-init of POD
        if len(ks)==1: return expr(ks[0])                   # copy
        raise Abort('ctor')
    if k=='CXXOperatorCallExpr':
        ks=kids(n); fn=ks[0]
        while fn['kind']=='ImplicitCastExpr': fn=kids(fn)[0]
        op=fn['referencedDecl']['name']
        if op=='operator=': return f"({expr(ks[1])} = {expr(ks[2])})"
        raise Abort(op)
    if k=='CXXMemberCallExpr':
        ks=kids(n); me=ks[0]; args=[expr(a) for a in ks[1:]]
        obj=kids(me)[0]; ot=obj.get('type',{}).get('qualType','')
        name=me['name']
        if 'std::atomic' in ot or '__atomic_base' in ot:
            loc=expr(obj); 
            if name=='load': return f"Y_LOAD(&{loc})"
            if name=='store': return f"Y_STORE(&{loc},{args[0]})"
            if name=='compare_exchange_weak': return f"Y_CAS_WEAK(&{loc},&{args[0]},{args[1]})"
            raise Abort('atomic.'+name)
        own=owner_of(me['referencedMemberDecl'])
        o=expr(obj); recv = o if me.get('isArrow') else '&'+o
        return f"{own}_{name}({', '.join([recv]+args)})"
    if k=='CallExpr':
        ks=kids(n); fn=ks[0]
        while fn['kind']=='ImplicitCastExpr': fn=kids(fn)[0]
        name=fn['referencedDecl']['name']
        if name in('_mm_pause',): return 'Y_PAUSE()'
        if name=='sleep_for': return 'Y_PAUSE()'
        return f"{name}({', '.join(expr(a) for a in ks[1:])})"
    raise Abort('expr '+str(k))
def stmt(n,ind,ann):
    k=n.get('kind'); p='    '*ind
    if k=='CompoundStmt': return p+'{\n'+''.join(stmt(c,ind+1,ann) for c in kids(n))+p+'}\n'
    if k=='DeclStmt':
        out=''
        for v in kids(n):
            ks=kids(v); init=(' = '+expr(ks[0])) if ks else ''
            out+=f"{p}{ctype(v['type'])} {v['name']}{init};\n"
        return out
    if k=='IfStmt':
        ks=kids(n); s=f"{p}if ({expr(ks[0])})\n"+stmt(ks[1],ind,ann)
        if len(ks)>2: s+=p+'else\n'+stmt(ks[2],ind,ann)
        return s
    if k=='ForStmt':
        c=n['inner']; # init, condvar, cond, inc, body (may be {} )
        def e(x): return expr(x) if x.get('kind') else ''
        init=c[0]; ii=''
        if init.get('kind')=='DeclStmt': ii=stmt(init,0,ann).strip().rstrip(';')
        elif init.get('kind'): ii=expr(init)
        lc=ann.pop(0) if ann else ''
        return f"{p}for ({ii}; {e(c[2])}; {e(c[3])})\n{lc}"+stmt(c[4],ind,ann)
    if k=='ReturnStmt': 
        ks=kids(n); return p+'return'+((' '+expr(ks[0])) if ks else '')+';\n'
    if k=='BreakStmt': return p+'break;\n'
    if k=='ContinueStmt': return p+'continue;\n'
    return p+expr(n)+';\n'
def emit_struct(name):
    r=rec(name); s=f"typedef struct {name} {{\n"
    for c in r['inner']:
        if c['kind']=='FieldDecl':
            bf=''
            if c.get('isBitfield'): bf=' : '+kids(c)[0]['value']
            s+=f"    {ctype(c['type'])} {c['name']}{bf};\n"
    return s+f"}} {name};\n"
def emit_method(cls,name,contract='',loopann=None):
    r=rec(cls)
    for c in r['inner']:
        if c.get('kind')=='CXXMethodDecl' and c.get('name')==name and any(x.get('kind')=='CompoundStmt' for x in c.get('inner',[])):
            params=[f"{ctype(p['type'])} {p['name']}" for p in c['inner'] if p.get('kind')=='ParmVarDecl']
            rt=c['type'].get('desugaredQualType',c['type']['qualType']).split('(')[0].strip()
            body=[x for x in c['inner'] if x.get('kind')=='CompoundStmt'][0]
            return f"{ctype({'qualType':rt})} {cls}_{name}({', '.join([cls+'* self']+params)})\n{contract}"+stmt(body,0,list(loopann or []))
    raise Abort('no method '+name)
out=['#include "ystub_spike.h"', emit_struct('node_version64_body'), 'typedef struct node_version64 { node_version64_body body_; } node_version64;', '#include "ystub_atomic_spike.h"']
for m in ['get_border','get_deleted','get_inserting_deleting','get_locked','get_root','get_splitting','get_vinsert_delete','get_vsplit','inc_vinsert_delete','inc_vsplit','set_border','set_deleted','set_inserting_deleting','set_locked','set_root','set_splitting']:
    out.append(emit_method('node_version64_body',m))
out.append(emit_method('node_version64','get_body'))
spec=open('unlock.spec').read().split('---LOOP---')
out.append(emit_method('node_version64','unlock',spec[0],[spec[1]]))
spec=open('gsv.spec').read().split('---LOOP---')
out.append(emit_method('node_version64','get_stable_version',spec[0],[spec[1]]))
print('\n'.join(out))
