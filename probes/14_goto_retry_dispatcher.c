#include <stdbool.h>
int g_locks; _Bool nondet_bool(void);
void f(void)
__CPROVER_requires(g_locks==0)
__CPROVER_assigns(g_locks)
__CPROVER_ensures(g_locks==0)
{
retry:
  g_locks++;                 /* lock */
  if(nondet_bool()){ g_locks--; goto retry; }   /* validation failed: unlock, retry */
  g_locks--;                 /* unlock */
}
/* mechanical goto-elimination: dispatcher loop */
void f2(void)
__CPROVER_requires(g_locks==0)
__CPROVER_assigns(g_locks)
__CPROVER_ensures(g_locks==0)
{
  int pc=0;
  for(;;)
  __CPROVER_assigns(pc,g_locks)
  __CPROVER_loop_invariant(g_locks==0 && (pc==0||pc==1))
  { switch(pc){ case 0: g_locks++; if(nondet_bool()){ g_locks--; pc=0; continue; } g_locks--; pc=1; continue; case 1: return; } }
}
void h(void){ f(); } void h2(void){ f2(); }
