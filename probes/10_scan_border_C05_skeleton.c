#include <stdint.h>
#include <stdbool.h>
#include <stddef.h>
/* hand-translated control skeleton of scan_border (scan_helper.h:169-450): byte-string comparisons are
   nondeterministic, vectors are sizes + ghost flag "an entry for bn is in the suffix appended by this call" */
enum st { OK, OK_SCAN_END, OK_SCAN_CONTINUE, OK_RETRY_FROM_ROOT, OK_RETRY_AFTER_FB };
enum ep { EXCLUSIVE, INCLUSIVE, INF };
int nondet_int(void); _Bool nondet_bool(void); size_t nondet_size(void); unsigned nondet_u(void);
size_t tl_size, nv_size; bool have_nvv; bool g_bn_rec; int g_site;
#ifdef FIXED
#define REC_IF_NOTHING() { if(!tuple_pushed_num && have_nvv){ nv_size++; g_bn_rec=true; } }
#else
#define REC_IF_NOTHING() {}
#endif
static enum st scan_check_retry(void){ unsigned k=nondet_u()%3; return k==0?OK:(k==1?OK_RETRY_FROM_ROOT:OK_RETRY_AFTER_FB); }
/* contract of the recursive scan(): may append tuples / nv entries (of sub-layer borders), returns OK or not */
static enum st sub_scan(void){ size_t a=nondet_size(), b=nondet_size(); __CPROVER_assume(a<1000&&b<1000); tl_size+=a; if(have_nvv) nv_size+=b; return nondet_bool()?OK:OK_RETRY_AFTER_FB; }
enum st scan_border(enum ep l_end, enum ep r_end, size_t max_size, bool has_next)
{
  size_t init_tl=tl_size, init_nv=nv_size;
  for(;;) /* retry: */
  __CPROVER_assigns(tl_size,nv_size,g_bn_rec,g_site)
  __CPROVER_loop_invariant(tl_size==init_tl && nv_size==init_nv && !g_bn_rec)
  {
    bool tuple_pushed_num=false; bool again=false;
    unsigned n=nondet_u()%16;
    for(unsigned i=0;i<n;++i)
    __CPROVER_assigns(i,tl_size,nv_size,g_bn_rec,tuple_pushed_num,again,g_site)
    __CPROVER_loop_invariant(i<=n && tl_size>=init_tl && nv_size>=init_nv && !again)
    __CPROVER_loop_invariant((tuple_pushed_num && have_nvv) ==> g_bn_rec)
    __CPROVER_loop_invariant(tl_size<=init_tl+16000 && nv_size<=init_nv+16016)
    {
      unsigned kl=nondet_u()%10;
      enum st cs=scan_check_retry();
      if(cs!=OK){ tl_size=init_tl; nv_size=init_nv; g_bn_rec=false; }
      if(cs==OK_RETRY_FROM_ROOT) return OK_RETRY_FROM_ROOT;
      if(cs==OK_RETRY_AFTER_FB){ again=true; break; }
      if(kl>8){
        if(l_end!=INF){ int c=nondet_int(); if(c>0) continue; }
        if(r_end!=INF){ int c=nondet_int(); if(c<0){ REC_IF_NOTHING(); g_site=1; return OK_SCAN_END; }
                        if(c==0){ if(nondet_bool()){ REC_IF_NOTHING(); g_site=2; return OK_SCAN_END; } } }
        cs=sub_scan();
        if(cs!=OK){ tl_size=init_tl; nv_size=init_nv; g_bn_rec=false; again=true; break; }
        if(max_size!=0 && tl_size>=max_size){ REC_IF_NOTHING(); g_site=3; return OK_SCAN_END; }
      } else {
        /* in_range(): */
        #define IN_RANGE(site) { tl_size++; if(have_nvv){ nv_size++; g_bn_rec=true; } tuple_pushed_num=true; if(max_size!=0&&tl_size>=max_size){ g_site=site; return OK_SCAN_END; } }
        if(l_end==INF && r_end==INF){ IN_RANGE(4); continue; }
        if(l_end!=INF){ if(nondet_bool()) continue; }
        if(r_end==INF){ IN_RANGE(5); continue; }
        if(nondet_bool()){ IN_RANGE(6); continue; }
        if(!tuple_pushed_num && have_nvv){ nv_size++; g_bn_rec=true; }
        g_site=7; return OK_SCAN_END;
      }
    }
    if(again) { __CPROVER_assume(0==0); continue; }
    if(!tuple_pushed_num && have_nvv){ nv_size++; g_bn_rec=true; }
    enum st cs=scan_check_retry();
    if(cs!=OK){ tl_size=init_tl; nv_size=init_nv; g_bn_rec=false; }
    if(cs==OK_RETRY_FROM_ROOT) return OK_RETRY_FROM_ROOT;
    if(cs==OK_RETRY_AFTER_FB) continue;
    if(!has_next){ g_site=8; return OK_SCAN_END; }
    g_site=9; return OK_SCAN_CONTINUE;
  }
}
void h(void){ enum ep l,r; size_t m; bool nx; __CPROVER_assume(l<=INF && r<=INF); __CPROVER_assume(tl_size<1000000 && nv_size<1000000); g_bn_rec=false;
  size_t t0=tl_size, n0=nv_size;
  enum st s=scan_border(l,r,m,nx);
  if(s==OK_SCAN_END||s==OK_SCAN_CONTINUE){ __CPROVER_assert(!have_nvv || g_bn_rec,"C05a: border recorded on successful exit");
     __CPROVER_assert(tl_size>=t0 && nv_size>=n0,"sizes grow"); }
  if(s==OK_RETRY_FROM_ROOT) __CPROVER_assert(tl_size==t0 && nv_size==n0,"rolled back"); }
