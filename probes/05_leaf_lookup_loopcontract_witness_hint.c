#include <stdint.h>
#include <stdbool.h>
#include <stddef.h>
#include <string.h>
typedef uint64_t key_slice_type; typedef uint8_t key_length_type;
typedef struct { uint64_t body_; } permutation;
typedef struct { uintptr_t child_or_v_; } link_or_value;
typedef struct { key_slice_type key_slice_[15]; void* parent_; uint64_t version_; key_length_type key_length_[15];
  permutation permutation_; link_or_value lv_[15]; void* prev_; void* next_; } border_node;
static uint8_t perm_get_cnk(permutation*p){ return (uint8_t)(p->body_ & 0xF);} 
static size_t perm_get_index_of_rank(permutation*p,size_t rank){ uint64_t per=p->body_; per>>=4; if(rank!=0) per >>= 4*rank; return per&0xF; }
static int y_memcmp(const void* a,const void* b,size_t n){ const unsigned char*p=a,*q=b; for(size_t k=0;k<n;k++){ if(p[k]!=q[k]) return p[k]<q[k]?-1:1; } return 0; }
/* spec */
#define NLEN(l) ((l)>8?9:(l))
static int S_cmp(uint64_t as, unsigned al, uint64_t bs, unsigned bl){ uint64_t a=__builtin_bswap64(as), b=__builtin_bswap64(bs);
  if(a<b) return -1; if(a>b) return 1; al=NLEN(al); bl=NLEN(bl); return al<bl?-1:(al>bl?1:0); }
static bool S_valid_entry(uint64_t s, unsigned l){ if(l>9) return false; if(l>=8) return true; return (s >> (8*l))==0; }
#define S_AT(b,r) (((b) >> (4*((r)+1))) & 0xF)
/* ghost witness rank */
unsigned g_r; unsigned g_wslot; int g_rel;
static bool S_placed(border_node* n, unsigned r){ uint64_t b=n->permutation_.body_; unsigned c=b&0xF; if(r>=c) return false;
  unsigned s=S_AT(b,r); 
  for(unsigned q=0;q<15;q++){ if(q<c){ unsigned t=S_AT(b,q); if(t>=15) return false; if(q!=r && t==s) return false; if(!S_valid_entry(n->key_slice_[t],n->key_length_[t])) return false;
      int k=S_cmp(n->key_slice_[t],n->key_length_[t],n->key_slice_[s],n->key_length_[s]);
      if(q<r && k>=0) return false; if(q>r && k<=0) return false; } } return true; }
/* relation of entry at rank q to witness, as pure expression usable in invariant: use precomputed ghost arrays? try function call */
static bool S_placed_pair(border_node* n, unsigned q, unsigned r){ uint64_t b=n->permutation_.body_; unsigned t=S_AT(b,q), s=S_AT(b,r);
  if(t>=15) return false; if(q!=r && t==s) return false; if(!S_valid_entry(n->key_slice_[t],n->key_length_[t])) return false;
  int k=S_cmp(n->key_slice_[t],n->key_length_[t],n->key_slice_[s],n->key_length_[s]); if(q<r && k>=0) return false; if(q>r && k<=0) return false; if(q==r && k!=0) return false; return true; }
#ifdef HINT_ASSERT
#define HINT(e) __CPROVER_assert(e,"hint is implied")
#else
#define HINT(e) __CPROVER_assume(e)
#endif
static int S_rel_key(border_node* n, unsigned q, uint64_t ks, unsigned kl){ unsigned t=S_AT(n->permutation_.body_,q); return S_cmp(n->key_slice_[t],n->key_length_[t],ks,kl); }

link_or_value* border_node_get_lv_of_without_lock(border_node* self, const key_slice_type key_slice, const key_length_type key_length)
__CPROVER_requires(__CPROVER_is_fresh(self,sizeof(*self)))
__CPROVER_requires(S_placed(self,g_r) && S_valid_entry(key_slice,key_length))
__CPROVER_requires(g_wslot==S_AT(self->permutation_.body_,g_r) && g_rel==S_rel_key(self,g_r,key_slice,key_length))
__CPROVER_assigns()
__CPROVER_ensures( S_rel_key(self,g_r,key_slice,key_length)==0 ==> __CPROVER_return_value==&self->lv_[S_AT(self->permutation_.body_,g_r)])
__CPROVER_ensures( __CPROVER_return_value==&self->lv_[S_AT(self->permutation_.body_,g_r)] ==> S_rel_key(self,g_r,key_slice,key_length)==0)
{
        permutation perm = { self->permutation_.body_ };
        size_t cnk = perm_get_cnk(&perm);
        link_or_value* ret_lv = NULL;
        for (size_t i = 0; i < cnk; ++i)
        __CPROVER_assigns(i, ret_lv)
        __CPROVER_loop_invariant(i<=cnk && cnk==(self->permutation_.body_&0xF) && perm.body_==self->permutation_.body_)
        __CPROVER_loop_invariant( i<=g_r ==> ret_lv != &self->lv_[g_wslot] )
        __CPROVER_loop_invariant( i>g_r ==> (g_rel<=0 && ((ret_lv == &self->lv_[g_wslot]) == (g_rel==0))) )
        __CPROVER_loop_invariant( (i>g_r+1) ==> g_rel<0 )
        __CPROVER_decreases(cnk - i)
        {
            HINT(S_placed_pair(self,i,g_r));
            bool suc = false;
            size_t index = perm_get_index_of_rank(&perm,i);
            key_slice_type target_key_slice = self->key_slice_[index];
            key_length_type target_key_len = self->key_length_[index];
            if (key_length == 0 && target_key_len == 0) {
                suc = true;
            } else {
                int ret = y_memcmp(&key_slice, &target_key_slice, sizeof(key_slice_type));
                if (ret == 0) {
                    if ((key_length > sizeof(key_slice_type) && target_key_len > sizeof(key_slice_type)) || key_length == target_key_len) {
                        suc = true;
                    } else if (key_length < target_key_len) { break; }
                } else if (ret < 0) { break; }
            }
            if (suc) { ret_lv = &self->lv_[index]; }
        }
        return ret_lv;
}
void h(void){ border_node* n; uint64_t ks; uint8_t kl; border_node_get_lv_of_without_lock(n,ks,kl); }
