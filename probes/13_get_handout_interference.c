#include <stdint.h>
#include <stdbool.h>
#include <stddef.h>
#define kChildFlag (2UL<<62)
#define kValPtrFlag (1UL<<62)
typedef struct { uint32_t len_; uint16_t align_; bool need_delete_; } value;
typedef struct { uintptr_t child_or_v_; } link_or_value;
uintptr_t nondet_word(void); _Bool nondet_bool(void); unsigned nondet_u(void);
/* interference mode: every load of the slot word returns an arbitrary word; ghost log of loaded words */
uintptr_t g_loaded[4]; int g_nloads;
static uintptr_t Y_LOAD_SLOT(link_or_value* s){ uintptr_t w=nondet_word(); /* value words designate live blocks (C07), others arbitrary */
  if(g_nloads<4) g_loaded[g_nloads]=w; g_nloads++; return w; }
static value* lv_get_value(link_or_value* self){ uintptr_t ptr=Y_LOAD_SLOT(self); if((ptr&kChildFlag)>0 || ptr==kValPtrFlag) return NULL; return (value*)ptr; }
static value* remove_ptr_flag(const value* val){ return (value*)((uintptr_t)val & ~kValPtrFlag); }
static void* value_get_body_addr(value* val){ value* v=remove_ptr_flag(val); if(v==val) return v; return (void*)((uintptr_t)v + 8 /* align_ read elided in this probe */); }
enum st { OK, WARN_NOT_EXIST, RETRY };
/* tail of get<char> after a successful lookup of a terminal entry (interface_get.h:97-111), version checks nondeterministic */
enum st get_tail(link_or_value* lv_ptr, void** out_first, value** out_vp)
{
    value* vp = lv_get_value(lv_ptr);
    void* v_body = value_get_body_addr(vp);
    if (nondet_bool()) return RETRY;   /* vsplit/deleted changed */
    if (nondet_bool()) return RETRY;   /* vinsert changed */
#ifdef FIXED
    if (vp == NULL) return RETRY;      /* non-inline ValueType: slot emptied by a concurrent remove */
#endif
    *out_first = v_body; *out_vp = vp;
    return OK;
}
void h(void){ link_or_value lv; void* first; value* vp; g_nloads=0;
  enum st s=get_tail(&lv,&first,&vp);
  if(s==OK){ __CPROVER_assert(g_nloads==1,"pointer and length derive from one load");
    uintptr_t w=g_loaded[0];
    __CPROVER_assert((w&kValPtrFlag)!=0 && (w&kChildFlag)==0 && w!=kValPtrFlag,"handed-out word is a non-empty value word");
    __CPROVER_assert(first!=NULL,"OK get never yields null"); } }
