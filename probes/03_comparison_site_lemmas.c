#include <stdint.h>
#include <stdbool.h>
#include <stddef.h>
#include <string.h>
#define NLEN(l) ((l)>8?9:(l))
static int S_cmp(uint64_t as, unsigned al, uint64_t bs, unsigned bl){ uint64_t a=__builtin_bswap64(as), b=__builtin_bswap64(bs);
  if(a<b) return -1; if(a>b) return 1; al=NLEN(al); bl=NLEN(bl); return al<bl?-1:(al>bl?1:0); }
static bool S_valid_entry(uint64_t s, unsigned l){ if(l>9) return false; if(l>=8) return true; return (s >> (8*l))==0; }
/* site: leaf lookup body decision: 0=suc 1=break 2=continue */
static int site_lookup(uint64_t key_slice, uint8_t key_length, uint64_t target_key_slice, uint8_t target_key_len){
            if (key_length == 0 && target_key_len == 0) { return 0; }
            else {
                int ret = memcmp(&key_slice, &target_key_slice, sizeof(uint64_t));
                if (ret == 0) {
                    if ((key_length > sizeof(uint64_t) && target_key_len > sizeof(uint64_t)) || key_length == target_key_len) { return 0; }
                    else if (key_length < target_key_len) { return 1; }
                } else if (ret < 0) { return 1; }
            }
            return 2; }
/* key_tuple operator< */
typedef struct { uint64_t key_slice_; uint8_t key_length_; } key_tuple;
static bool kt_lt(const key_tuple* self, const key_tuple* r){
            if (r->key_length_ == 0) { return false; }
            if (self->key_length_ == 0) { return true; }
            int ret = memcmp(&self->key_slice_, &r->key_slice_, self->key_length_ < r->key_length_ ? self->key_length_ : r->key_length_);
            if (ret < 0) { return true; }
            if (ret == 0) { return self->key_length_ < r->key_length_; }
            return false; }
void h_site(void){ uint64_t ks,ts; uint8_t kl,tl; __CPROVER_assume(S_valid_entry(ks,kl)&&S_valid_entry(ts,tl));
  int d=site_lookup(ks,kl,ts,tl); int c=S_cmp(ks,kl,ts,tl);
  __CPROVER_assert((d==0)==(c==0),"suc iff equal"); __CPROVER_assert((d==1)==(c<0),"break iff key<entry"); __CPROVER_assert((d==2)==(c>0),"continue iff key>entry"); }
void h_kt(void){ key_tuple a,b; __CPROVER_assume(S_valid_entry(a.key_slice_,a.key_length_)&&S_valid_entry(b.key_slice_,b.key_length_));
  __CPROVER_assert(kt_lt(&a,&b)==(S_cmp(a.key_slice_,a.key_length_,b.key_slice_,b.key_length_)<0),"operator< is spec order"); }
void h_trans(void){ uint64_t a,b,c; uint8_t x,y,z; 
  __CPROVER_assume(S_cmp(a,x,b,y)<0 && S_cmp(b,y,c,z)<0); __CPROVER_assert(S_cmp(a,x,c,z)<0,"transitive"); __CPROVER_assert(S_cmp(b,y,a,x)>0,"antisym"); }
