#include "kvs.h"
#include <iostream>
#include <thread>
#include <atomic>
using namespace yakushima;
int main(){
  init(); create_storage("s");
  std::atomic<bool> stop{false}; std::atomic<long> nulltuples{0}, scans{0}, inulls{0}, iscans{0};
  { Token t{}; enter(t); std::string v("vvvvvvvv"); for(int i=0;i<5;i++){ std::string k="k"+std::to_string(i); put(t,"s",k,v.data(),v.size()); } leave(t); }
  std::thread w([&]{ Token t{}; enter(t); std::string v("vvvvvvvv"); while(!stop){ put(t,"s","k2",v.data(),v.size()); remove(t,"s","k2"); } leave(t); });
  std::vector<std::thread> rs;
  for(int r=0;r<3;r++) rs.emplace_back([&]{ Token t{}; enter(t); std::vector<std::tuple<std::string,char*,std::size_t>> tl; while(!stop){ scan<char>("s","",scan_endpoint::INF,"",scan_endpoint::INF,tl,nullptr,0,false); scans++; for(auto&e:tl) if(std::get<1>(e)==nullptr) nulltuples++; } leave(t); });
  for(int r=0;r<3;r++) rs.emplace_back([&]{ Token t{}; enter(t); while(!stop){ iscan_context* c{}; void* out{}; auto rc=iscan_open("s","",scan_endpoint::INF,"",scan_endpoint::INF,false,false,c,out); while(rc==status::OK){ if(out==nullptr) inulls++; rc=iscan_next(c,out);} iscan_close(c); iscans++; } leave(t); });
  sleepMs(5000); stop=true; w.join(); for(auto&t:rs) t.join();
  std::cout<<"scans="<<scans<<" tuples_with_null_value="<<nulltuples<<" iscans="<<iscans<<" iscan_null_values="<<inulls<<"\n";
  fin();
}
