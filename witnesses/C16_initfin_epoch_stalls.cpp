#include "kvs.h"
#include <iostream>
using namespace yakushima;
int main(){
  for(int cycle=0; cycle<3; ++cycle){
    init();
    auto e0=epoch_management::get_epoch();
    sleepMs(400);
    auto e1=epoch_management::get_epoch();
    std::cout<<"cycle "<<cycle<<" epoch advanced by "<<(e1-e0)<<" in 400ms\n";
    fin();
  }
}
