#include "kvs.h"
#include <iostream>
using namespace yakushima;
int main(){
  init(); create_storage("s"); Token t{}; enter(t);
  std::string v("v");
  // only key: 9 bytes -> border B holds only a link for prefix AAAAAAAA
  put(t,"s","AAAAAAAAx",v.data(),v.size());
  std::vector<std::tuple<std::string,char*,std::size_t>> tl; std::vector<std::pair<node_version64_body,node_version64*>> nv;
  auto rc=scan<char>("s","",scan_endpoint::INCLUSIVE,"AAAAAAAA",scan_endpoint::EXCLUSIVE,tl,&nv,0,false);
  std::cout<<"case1 rc="<<rc<<" tuples="<<tl.size()<<" nvec="<<nv.size()<<"\n";
  // insert key "A" inside ["", "AAAAAAAA") and check staleness
  put(t,"s","A",v.data(),v.size());
  bool stale=false; for(auto&p:nv) if(p.second->get_stable_version()!=p.first) stale=true;
  std::cout<<"case1 stale="<<stale<<"\n";
  remove(t,"s","A");
  // case 2: max_size=1 full scan, result lies in sub layer
  tl.clear(); nv.clear();
  rc=scan<char>("s","",scan_endpoint::INF,"",scan_endpoint::INF,tl,&nv,1,false);
  std::cout<<"case2 rc="<<rc<<" tuples="<<tl.size()<<" nvec="<<nv.size()<<" first="<<(tl.empty()?"":std::get<0>(tl[0]))<<"\n";
  put(t,"s","A",v.data(),v.size());
  stale=false; for(auto&p:nv) if(p.second->get_stable_version()!=p.first) stale=true;
  std::cout<<"case2 stale="<<stale<<"\n";
  leave(t); fin();
}
