#include "kvs.h"
#include <iostream>
#include <thread>
#include <atomic>
using namespace yakushima;
int main(){
  init(); create_storage("s");
  std::atomic<bool> stop{false}; std::atomic<long> nullok{0}, oks{0}, gets{0};
  { Token t{}; enter(t); std::string v("vvvvvvvv"); for(int i=0;i<5;i++){ std::string k="k"+std::to_string(i); put(t,"s",k,v.data(),v.size()); } leave(t); }
  std::thread w([&]{ Token t{}; enter(t); std::string v("vvvvvvvv"); while(!stop){ put(t,"s","k2",v.data(),v.size()); remove(t,"s","k2"); } leave(t); });
  std::vector<std::thread> rs;
  for(int r=0;r<6;r++) rs.emplace_back([&]{ Token t{}; enter(t); while(!stop){ std::pair<char*,std::size_t> out{}; auto rc=get<char>("s","k2",out); gets++; if(rc==status::OK){ oks++; if(out.first==nullptr) nullok++; } } leave(t); });
  sleepMs(5000); stop=true; w.join(); for(auto&t:rs) t.join();
  std::cout<<"gets="<<gets<<" OK="<<oks<<" OK_with_null_pointer="<<nullok<<"\n";
  fin();
}
