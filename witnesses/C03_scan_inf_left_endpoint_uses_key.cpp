#include "kvs.h"
#include <iostream>
using namespace yakushima;
int main(){
  init(); create_storage("s"); Token t{}; enter(t);
  std::string v("v");
  for(int i=0;i<100;i++){ char b[8]; snprintf(b,sizeof b,"k%03d",i); put(t,"s",b,v.data(),v.size()); }
  std::vector<std::tuple<std::string,char*,std::size_t>> tl;
  scan<char>("s","",scan_endpoint::INF,"",scan_endpoint::INF,tl,nullptr,0,false);
  std::cout<<"INF with empty key: "<<tl.size()<<"\n";
  scan<char>("s","k090",scan_endpoint::INF,"",scan_endpoint::INF,tl,nullptr,0,false);
  std::cout<<"INF with l_key=k090: "<<tl.size()<<" first="<<(tl.empty()?"":std::get<0>(tl[0]))<<"\n";
  // iscan for comparison
  iscan_context* c{}; void* out{}; int n=0;
  auto rc=iscan_open("s","k090",scan_endpoint::INF,"",scan_endpoint::INF,false,false,c,out);
  while(rc==status::OK){ n++; rc=iscan_next(c,out);} iscan_close(c);
  std::cout<<"iscan INF with l_key=k090: "<<n<<"\n";
  leave(t); fin();
}
