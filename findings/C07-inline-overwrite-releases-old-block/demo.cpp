// put<inline type> overwriting an out-of-line value releases the old block at once although another session still reads it
#include <cstdio>
#include <cstring>
#include <string>
#include "kvs.h"
using namespace yakushima;
int main() {
    init();
    create_storage("s");
    Token w{}, r{};
    enter(w); enter(r);
    std::string v(100, 'x');
    put<char>(w, "s", "k", v.data(), v.size());
    std::pair<char*, std::size_t> got{};
    if (get<char>("s", "k", got) != status::OK) { std::puts("get failed"); return 2; }
    // session r (begin epoch = now) still holds `got`
    char* newp = nullptr;
    char** np = &newp;
    put<char*>(w, "s", "k", np, sizeof(char*));   // inline value: overwrites the 100-byte out-of-line value
    // the reader session is still open: the old block must still be readable (C07 / C15)
    volatile char c = got.first[0];               // ASan: heap-use-after-free on the unfixed tree
    std::printf("read %c\n", c);
    leave(w); leave(r);
    fin();
    return 0;
}
