// native replay helpers for C19 counterexamples: nibble-array specification of the permutation word
#include <cstdint>
#include <cstdio>
#include "permutation.h"
namespace pr {
inline unsigned cnt(uint64_t b) { return b & 0xF; }
inline unsigned slot(uint64_t b, unsigned r) { return (b >> (4 * (r + 1))) & 0xF; }
inline bool valid(uint64_t b) { unsigned n = cnt(b); if (n > 15) return false; for (unsigned r = 0; r < n; ++r) { if (slot(b, r) >= 15) return false; for (unsigned q = 0; q < r; ++q) if (slot(b, q) == slot(b, r)) return false; } return true; }
inline void show(const char* t, uint64_t b) { std::printf("%s 0x%016lx cnt=%u slots:", t, (unsigned long)b, cnt(b)); for (unsigned r = 0; r < cnt(b) && r < 15; ++r) std::printf(" %u", slot(b, r)); std::printf("\n"); }
inline int done(bool bad) { std::printf(bad ? "REPLAY: postcondition violated natively\n" : "REPLAY: native result agrees with the specification\n"); return bad ? 1 : 0; }
}
