// native replay helpers for C17 counterexamples: build a version word from field values, apply the real operation,
// compare with the specification (independent re-statement of f_unlock etc.)
#include <cstdint>
#include <cstdio>
#include <cstring>
#include "version.h"
namespace yr {
using namespace yakushima;
struct F { uint32_t vi, locked, ins, spl, vs, del, root, border; };
inline node_version64_body mk(F f) {
    uint64_t w = (uint64_t)(f.vi & 0x1fffffffu) | ((uint64_t)(f.locked & 1) << 29) | ((uint64_t)(f.ins & 1) << 30) | ((uint64_t)(f.spl & 1) << 31) |
                 ((uint64_t)(f.vs & 0x1fffffffu) << 32) | ((uint64_t)(f.del & 1) << 61) | ((uint64_t)(f.root & 1) << 62) | ((uint64_t)(f.border & 1) << 63);
    node_version64_body b; memcpy(&b, &w, 8);
    // cross-check the assumed layout through the public getters
    if (b.get_vinsert_delete() != (f.vi & 0x1fffffffu) || b.get_locked() != (f.locked & 1) || b.get_inserting_deleting() != (f.ins & 1) || b.get_splitting() != (f.spl & 1) ||
        b.get_vsplit() != (f.vs & 0x1fffffffu) || b.get_deleted() != (f.del & 1) || b.get_root() != (f.root & 1) || b.get_border() != (f.border & 1)) {
        std::printf("layout assumption of the replay helper does not hold\n"); std::exit(3);
    }
    return b;
}
inline F rd(node_version64_body b) { return F{b.get_vinsert_delete(), b.get_locked(), b.get_inserting_deleting(), b.get_splitting(), b.get_vsplit(), b.get_deleted(), b.get_root(), b.get_border()}; }
inline bool eq(F a, F b) { return a.vi == b.vi && a.locked == b.locked && a.ins == b.ins && a.spl == b.spl && a.vs == b.vs && a.del == b.del && a.root == b.root && a.border == b.border; }
inline F f_unlock(F v) { F r = v; r.locked = 0; if (v.ins) r.vi = (v.vi + 1) & 0x1fffffffu; r.ins = 0; if (v.spl) r.vs = (v.vs + 1) & 0x1fffffffu; r.spl = 0; return r; }
inline void show(const char* t, F f) { std::printf("%s vinsert_delete=%u locked=%u inserting_deleting=%u splitting=%u vsplit=%u deleted=%u root=%u border=%u\n", t, f.vi, f.locked, f.ins, f.spl, f.vs, f.del, f.root, f.border); }
inline int verdict(F pre, F got, F want) { show("pre ", pre); show("got ", got); show("want", want); if (!eq(got, want)) { std::printf("REPLAY: postcondition violated natively\n"); return 1; } std::printf("REPLAY: native result agrees with the specification\n"); return 0; }
}
